package refcff

import (
	"bytes"
	"fmt"
	"math"
	"reflect"
	"strings"
	"testing"

	"seehuhn.de/go/sfnt/cff"
	"seehuhn.de/go/sfnt/glyph"

	"verif/reft2"
)

// ---- standard strings ----

func TestStdStrings(t *testing.T) {
	if len(stdStrings) != 391 {
		t.Fatalf("got %d standard strings, want 391", len(stdStrings))
	}
	seen := map[string]int{}
	for i, s := range stdStrings {
		if s == "" {
			t.Errorf("standard string %d is empty", i)
		}
		if j, dup := seen[s]; dup {
			t.Errorf("standard strings %d and %d are both %q", j, i, s)
		}
		seen[s] = i
	}
	f := &Font{Strings: []string{"foo", "bar"}}
	for sid, want := range map[int]string{
		0: ".notdef", 1: "space", 2: "exclam", 17: "zero", 26: "nine", 34: "A", 59: "Z", 66: "a", 91: "z", 95: "asciitilde",
		96: "exclamdown", 109: "fi", 110: "fl", 137: "emdash", 138: "AE", 149: "germandbls", 150: "onesuperior",
		170: "copyright", 171: "Aacute", 199: "Zcaron", 200: "aacute", 228: "zcaron", 229: "exclamsmall",
		265: "tsuperior", 266: "ff", 268: "ffl", 274: "Asmall", 299: "Zsmall", 300: "colonmonetary", 314: "figuredash",
		320: "oneeighth", 326: "zerosuperior", 333: "zeroinferior", 342: "nineinferior", 346: "commainferior",
		347: "Agravesmall", 378: "Ydieresissmall", 379: "001.000", 382: "001.003", 383: "Black", 388: "Regular",
		389: "Roman", 390: "Semibold", 391: "foo", 392: "bar", 393: "", -1: "",
	} {
		if got := f.SIDString(sid); got != want {
			t.Errorf("SIDString(%d) = %q, want %q", sid, got, want)
		}
	}
}

// ---- DICT numbers ----

func TestDictNumbers(t *testing.T) {
	values := []float64{0, 1, -1, 107, -107, 108, -108, 1131, -1131, 1132, -1132, 32767, -32768, 32768, -32769,
		1 << 30, math.MaxInt32, math.MinInt32, 0.5, -0.5, 0.001, -2.25, 600.25, 1e-7, 1.5e-7, -1.5e-10, 1e21, 1.25e30,
		0.000558036, 123456.789, 3e9, -3e9}
	var data []byte
	for i, v := range values {
		data = append(data, encodeNum(v)...)
		data = append(data, encodeOp(1200+i)...)
	}
	p := &parser{f: &Font{}}
	d := p.parseDict(data, "test")
	if len(p.f.Problems) != 0 {
		t.Fatalf("problems: %q", p.f.Problems)
	}
	for i, v := range values {
		got := d[1200+i]
		if len(got) != 1 || got[0] != v {
			t.Errorf("value %d: got %v, want %v", i, got, v)
		}
	}

	// encodings are the shortest ones
	for _, c := range []struct {
		v float64
		n int
	}{{0, 1}, {107, 1}, {-107, 1}, {108, 2}, {1131, 2}, {-108, 2}, {-1131, 2}, {1132, 3}, {-1132, 3}, {32767, 3}, {-32768, 3},
		{32768, 5}, {-32769, 5}, {0.5, 3}, {-0.5, 4}} {
		if got := len(encodeNum(c.v)); got != c.n {
			t.Errorf("encodeNum(%v) has %d bytes, want %d", c.v, got, c.n)
		}
	}

	// explicit byte sequences from TN5176 (Table 3 and the real number examples)
	for _, c := range []struct {
		data []byte
		want float64
	}{
		{[]byte{0x8b}, 0},
		{[]byte{0xef}, 100},
		{[]byte{0x27}, -100},
		{[]byte{0xfa, 0x7c}, 1000},
		{[]byte{0xfe, 0x7c}, -1000},
		{[]byte{0x1c, 0x27, 0x10}, 10000},
		{[]byte{0x1c, 0xd8, 0xf0}, -10000},
		{[]byte{0x1d, 0x00, 0x01, 0x86, 0xa0}, 100000},
		{[]byte{0x1d, 0xff, 0xfe, 0x79, 0x60}, -100000},
		{[]byte{0x1e, 0xe2, 0xa2, 0x5f}, -2.25},
		{[]byte{0x1e, 0x0a, 0x14, 0x05, 0x41, 0xc3, 0xff}, 0.140541e-3},
	} {
		p := &parser{f: &Font{}}
		d := p.parseDict(append(append([]byte{}, c.data...), 0), "test")
		if got := d[0]; len(got) != 1 || got[0] != c.want || len(p.f.Problems) != 0 {
			t.Errorf("% x: got %v (%q), want %v", c.data, got, p.f.Problems, c.want)
		}
	}

	// operators without operands, escaped operators, several operands
	p = &parser{f: &Font{}}
	d = p.parseDict([]byte{0x8c, 0x8d, 0x8e, 5, 12, 7, 0x8b, 12, 30}, "test")
	want := Dict{5: {1, 2, 3}, 1207: {}, 1230: {0}}
	if !reflect.DeepEqual(d, want) || len(p.f.Problems) != 0 {
		t.Errorf("got %v (%q), want %v", d, p.f.Problems, want)
	}

	// malformed DICTs
	for _, c := range []struct {
		name string
		data []byte
	}{
		{"trailing operands", []byte{0x8b}},
		{"reserved 22", []byte{22}},
		{"reserved 27", []byte{27}},
		{"reserved 31", []byte{31}},
		{"reserved 255", []byte{255, 0, 0, 0, 0, 0}},
		{"truncated 28", []byte{28, 0}},
		{"truncated 29", []byte{29, 0, 0, 0}},
		{"truncated 247", []byte{247}},
		{"truncated 251", []byte{251}},
		{"truncated escape", []byte{0x8b, 12}},
		{"unterminated real", []byte{30, 0x12}},
		{"reserved nibble", []byte{30, 0x1d, 0xff, 0}},
		{"malformed real", []byte{30, 0xee, 0xff, 0}},
		{"empty real", []byte{30, 0xff, 0}},
		{"duplicate operator", []byte{0x8b, 0, 0x8b, 0}},
		{"49 operands", append(bytes.Repeat([]byte{0x8b}, 49), 0)},
	} {
		p := &parser{f: &Font{}}
		p.parseDict(c.data, "test")
		if len(p.f.Problems) == 0 {
			t.Errorf("%s: expected a problem", c.name)
		}
	}
	p = &parser{f: &Font{}}
	p.parseDict(append(bytes.Repeat([]byte{0x8b}, 48), 0), "test")
	if len(p.f.Problems) != 0 {
		t.Errorf("48 operands: %q", p.f.Problems)
	}
}

// ---- charstring helpers ----

// num encodes an integer as a Type 2 charstring operand.
func num(v int) []byte {
	switch {
	case v >= -107 && v <= 107:
		return []byte{byte(v + 139)}
	case v >= 108 && v <= 1131:
		v -= 108
		return []byte{byte(v>>8) + 247, byte(v)}
	case v >= -1131 && v <= -108:
		v = -v - 108
		return []byte{byte(v>>8) + 251, byte(v)}
	}
	return []byte{28, byte(v >> 8), byte(v)}
}

// t2 assembles a charstring: ints are operands, strings are operators.
func t2(items ...interface{}) []byte {
	ops := map[string][]byte{
		"hstem": {1}, "vstem": {3}, "vmoveto": {4}, "rlineto": {5}, "hlineto": {6}, "vlineto": {7}, "rrcurveto": {8},
		"callsubr": {10}, "return": {11}, "endchar": {14}, "hstemhm": {18}, "hintmask": {19}, "cntrmask": {20},
		"rmoveto": {21}, "hmoveto": {22}, "vstemhm": {23}, "callgsubr": {29}, "div": {12, 12},
	}
	var out []byte
	for _, it := range items {
		switch v := it.(type) {
		case int:
			out = append(out, num(v)...)
		case string:
			b, ok := ops[v]
			if !ok {
				panic("unknown operator " + v)
			}
			out = append(out, b...)
		case []byte:
			out = append(out, v...)
		}
	}
	return out
}

func showGlyph(g *reft2.Glyph) string {
	var parts []string
	for _, o := range g.Ops {
		s := string(o.Kind)
		for _, a := range o.Args {
			s += fmt.Sprintf(" %g", a)
		}
		if o.Mask != nil {
			s += fmt.Sprintf(" %x", o.Mask)
		}
		parts = append(parts, s)
	}
	return strings.Join(parts, "|")
}

// envFor returns the charstring environment for a glyph of a parsed font.
func envFor(f *Font, gid int) *reft2.Env {
	fd := 0
	if f.IsCID {
		fd = f.FDSelect[gid]
	}
	p := f.Privates[fd]
	return &reft2.Env{
		GlobalSubrs:   f.GlobalSubrs,
		LocalSubrs:    p.LocalSubrs,
		DefaultWidthX: p.DefaultWidthX,
		NominalWidthX: p.NominalWidthX,
	}
}

// ---- the two test fonts ----

type expGlyph struct {
	name  string // simple fonts only
	ops   string
	width float64
	hstem []float64
	vstem []float64
}

func simpleSpec() (*AsmSpec, []expGlyph) {
	spec := &AsmSpec{
		Name: "Test-Simple",
		CharStrings: [][]byte{
			t2("endchar"), // .notdef, default width
			t2(-100, 10, 20, "rmoveto", -107, "callsubr", "endchar"),                           // A: width 500, local subr 0
			t2(0, "hmoveto", -107, "callgsubr", -106, "callsubr", "endchar"),                   // custom name, global 0, local 1 (which calls global 1)
			t2(50, 0, 100, "hstem", 10, 20, "hintmask", []byte{0xc0}, 5, "vmoveto", "endchar"), // B: hints, width 650
			t2(1, 3, "div", 0, "hmoveto", "endchar"),                                           // fractional width
		},
		GlobalSubrs: [][]byte{
			t2(100, "hlineto", "return"),
			t2(1, 2, 3, 4, 5, 6, "rrcurveto", "return"),
		},
		GlyphNames: []string{"A", "my.glyph", "B", "Semibold"},
		Privates: []AsmPrivate{{
			DefaultWidthX: 432,
			NominalWidthX: 600,
			LocalSubrs: [][]byte{
				t2(30, 40, "rlineto", "return"),
				t2(-7, "vlineto", -106, "callgsubr", "return"),
			},
		}},
	}
	exp := []expGlyph{
		{name: ".notdef", width: 432},
		{name: "A", ops: "M 10 20|L 40 60", width: 500},
		{name: "my.glyph", ops: "M 0 0|L 100 0|L 100 -7|C 101 -5 104 -1 109 5", width: 432},
		{name: "B", ops: "H c0|M 0 5", width: 650, hstem: []float64{0, 100}, vstem: []float64{10, 30}},
		{name: "Semibold", ops: "M 0 0", width: 600 + math.Round(65536.0/3)/65536},
	}
	return spec, exp
}

func cidSpec() (*AsmSpec, []expGlyph) {
	spec := &AsmSpec{
		Name: "Test-CID",
		CID:  true,
		CharStrings: [][]byte{
			t2("endchar"), // FD 0, default width
			t2(0, "hmoveto", -107, "callsubr", "endchar"),                         // FD 1, local subr 0 of FD 1
			t2(0, "hmoveto", -107, "callsubr", "endchar"),                         // FD 0, local subr 0 of FD 0
			t2(100, 0, "hmoveto", -107, "callgsubr", -107, "callsubr", "endchar"), // FD 1, width
			t2(100, 0, "hmoveto", -107, "callgsubr", -107, "callsubr", "endchar"), // FD 0, width
			t2("endchar"),               // FD 1, default width
			t2(0, "hmoveto", "endchar"), // FD 2 (no local subrs)
		},
		GlobalSubrs: [][]byte{t2(9, "hlineto", "return")},
		GlyphNames:  []string{"ignored"},
		Privates: []AsmPrivate{
			{DefaultWidthX: 1000, NominalWidthX: 900, LocalSubrs: [][]byte{t2(1, "vlineto", "return")}},
			{DefaultWidthX: 300.5, NominalWidthX: 250.25, LocalSubrs: [][]byte{t2(2, "vlineto", "return"), t2("return")}},
			{DefaultWidthX: 0, NominalWidthX: 0},
		},
		FDSelect: []int{0, 1, 0, 1, 0, 1, 2},
	}
	exp := []expGlyph{
		{width: 1000},
		{ops: "M 0 0|L 0 2", width: 300.5},
		{ops: "M 0 0|L 0 1", width: 1000},
		{ops: "M 0 0|L 9 0|L 9 2", width: 350.25},
		{ops: "M 0 0|L 9 0|L 9 1", width: 1000},
		{width: 300.5},
		{ops: "M 0 0", width: 0},
	}
	return spec, exp
}

func sameSubrs(a, b [][]byte) bool {
	if len(a) != len(b) {
		return false
	}
	for i := range a {
		if !bytes.Equal(a[i], b[i]) {
			return false
		}
	}
	return true
}

// checkFont compares a parsed font with the spec it was assembled from.
func checkFont(t *testing.T, f *Font, spec *AsmSpec, exp []expGlyph) {
	t.Helper()
	if len(f.Problems) != 0 {
		t.Errorf("problems: %q", f.Problems)
	}
	if f.Name != spec.Name {
		t.Errorf("name: got %q, want %q", f.Name, spec.Name)
	}
	if f.IsCID != spec.CID {
		t.Errorf("IsCID: got %v", f.IsCID)
	}
	if !sameSubrs(f.CharStrings, spec.CharStrings) {
		t.Errorf("CharStrings differ")
	}
	if !sameSubrs(f.GlobalSubrs, spec.GlobalSubrs) {
		t.Errorf("GlobalSubrs differ")
	}
	if len(f.Privates) != len(spec.Privates) {
		t.Fatalf("got %d Privates, want %d", len(f.Privates), len(spec.Privates))
	}
	for i, p := range spec.Privates {
		q := f.Privates[i]
		if q.DefaultWidthX != p.DefaultWidthX || q.NominalWidthX != p.NominalWidthX {
			t.Errorf("Private %d: widths %g/%g, want %g/%g", i, q.DefaultWidthX, q.NominalWidthX, p.DefaultWidthX, p.NominalWidthX)
		}
		if !sameSubrs(q.LocalSubrs, p.LocalSubrs) {
			t.Errorf("Private %d: LocalSubrs differ", i)
		}
		if (len(p.LocalSubrs) == 0) != (q.LocalSubrs == nil) {
			t.Errorf("Private %d: LocalSubrs nil-ness wrong", i)
		}
	}
	n := len(spec.CharStrings)
	if f.CharsetFormat != 0 || f.CharsetID <= 2 || len(f.Charset) != n || f.Charset[0] != 0 {
		t.Fatalf("charset: format %d, id %d, %v", f.CharsetFormat, f.CharsetID, f.Charset)
	}
	if f.Encoding != nil || f.EncodingID != 0 {
		t.Errorf("encoding: %v %d", f.Encoding, f.EncodingID)
	}
	if spec.CID {
		if f.FDSelectFormat != 0 || !reflect.DeepEqual(f.FDSelect, spec.FDSelect) {
			t.Errorf("FDSelect: got %v, want %v", f.FDSelect, spec.FDSelect)
		}
		if len(f.FDArray) != len(spec.Privates) {
			t.Errorf("FDArray has %d entries", len(f.FDArray))
		}
		ros := f.Top[opROS]
		if len(ros) != 3 || f.SIDString(int(ros[0])) != "Adobe" || f.SIDString(int(ros[1])) != "Identity" || ros[2] != 0 {
			t.Errorf("ROS: %v", ros)
		}
		if c := f.Top[opCIDCount]; len(c) != 1 || int(c[0]) != n {
			t.Errorf("CIDCount: %v", c)
		}
		for g, c := range f.Charset {
			if c != g {
				t.Errorf("glyph %d has CID %d", g, c)
			}
		}
	} else {
		if f.FDSelect != nil || f.FDArray != nil {
			t.Errorf("simple font with FDSelect/FDArray")
		}
	}
	for gid, e := range exp {
		if !spec.CID {
			if got := f.SIDString(f.Charset[gid]); got != e.name {
				t.Errorf("glyph %d: name %q, want %q", gid, got, e.name)
			}
		}
		g, err := reft2.Interpret(f.CharStrings[gid], envFor(f, gid))
		if err != nil {
			t.Errorf("glyph %d: %v", gid, err)
			continue
		}
		if got := showGlyph(g); got != e.ops {
			t.Errorf("glyph %d: ops %q, want %q", gid, got, e.ops)
		}
		if g.Width != e.width {
			t.Errorf("glyph %d: width %g, want %g", gid, g.Width, e.width)
		}
		if len(g.HStem)+len(e.hstem) > 0 && !reflect.DeepEqual(g.HStem, e.hstem) {
			t.Errorf("glyph %d: hstem %v, want %v", gid, g.HStem, e.hstem)
		}
		if len(g.VStem)+len(e.vstem) > 0 && !reflect.DeepEqual(g.VStem, e.vstem) {
			t.Errorf("glyph %d: vstem %v, want %v", gid, g.VStem, e.vstem)
		}
	}
}

func TestRoundTripSimple(t *testing.T) {
	spec, exp := simpleSpec()
	data := Assemble(spec)
	f, err := Parse(data)
	if err != nil {
		t.Fatal(err)
	}
	checkFont(t, f, spec, exp)
	if !reflect.DeepEqual(f.Strings, []string{"my.glyph"}) {
		t.Errorf("strings: %q", f.Strings)
	}
	if f.Charset[4] != 390 || f.Charset[2] != 391 {
		t.Errorf("charset: %v", f.Charset)
	}
}

func TestRoundTripCID(t *testing.T) {
	spec, exp := cidSpec()
	data := Assemble(spec)
	f, err := Parse(data)
	if err != nil {
		t.Fatal(err)
	}
	checkFont(t, f, spec, exp)
	if !reflect.DeepEqual(f.Strings, []string{"Adobe", "Identity"}) {
		t.Errorf("strings: %q", f.Strings)
	}
}

// A font which is large enough that offSize 2 and 3 are needed.
func TestRoundTripLarge(t *testing.T) {
	spec := &AsmSpec{Name: "Large", Privates: []AsmPrivate{{DefaultWidthX: 1, NominalWidthX: 2}}}
	for i := 0; i < 700; i++ {
		cs := t2(0, "hmoveto")
		for j := 0; j < 40; j++ {
			cs = append(cs, t2(i+j, "hlineto")...)
		}
		cs = append(cs, t2("endchar")...)
		spec.CharStrings = append(spec.CharStrings, cs)
		if i > 0 {
			spec.GlyphNames = append(spec.GlyphNames, fmt.Sprintf("g%04d", i))
		}
		spec.GlobalSubrs = append(spec.GlobalSubrs, t2(i, "return"))
		spec.Privates[0].LocalSubrs = append(spec.Privates[0].LocalSubrs, bytes.Repeat([]byte{11}, 100))
	}
	data := Assemble(spec)
	f, err := Parse(data)
	if err != nil {
		t.Fatal(err)
	}
	if len(f.Problems) != 0 {
		t.Errorf("problems: %q", f.Problems)
	}
	if !sameSubrs(f.CharStrings, spec.CharStrings) || !sameSubrs(f.GlobalSubrs, spec.GlobalSubrs) ||
		!sameSubrs(f.Privates[0].LocalSubrs, spec.Privates[0].LocalSubrs) {
		t.Errorf("data differs")
	}
	for g := 1; g < 700; g++ {
		if f.SIDString(f.Charset[g]) != spec.GlyphNames[g-1] {
			t.Fatalf("glyph %d: name %q", g, f.SIDString(f.Charset[g]))
		}
	}
	if len(f.Strings) != 699 {
		t.Errorf("%d strings", len(f.Strings))
	}
}

// ---- cross-check against the library under test ----

func libOps(g *cff.Glyph) string {
	var parts []string
	for _, c := range g.Cmds {
		var s string
		switch c.Op {
		case cff.OpMoveTo:
			s = "M"
		case cff.OpLineTo:
			s = "L"
		case cff.OpCurveTo:
			s = "C"
		case cff.OpHintMask:
			s = "H"
		case cff.OpCntrMask:
			s = "K"
		}
		if c.Op == cff.OpHintMask || c.Op == cff.OpCntrMask {
			parts = append(parts, s) // the representation of the mask is the library's business
			continue
		}
		for _, a := range c.Args {
			s += fmt.Sprintf(" %g", a)
		}
		parts = append(parts, s)
	}
	return strings.Join(parts, "|")
}

func refOps(g *reft2.Glyph) string {
	var parts []string
	for _, o := range g.Ops {
		s := string(o.Kind)
		for _, a := range o.Args {
			s += fmt.Sprintf(" %g", a)
		}
		parts = append(parts, s)
	}
	return strings.Join(parts, "|")
}

func crossCheckLibrary(t *testing.T, data []byte, cid bool) {
	t.Helper()
	f, err := Parse(data)
	if err != nil {
		t.Fatal(err)
	}
	if len(f.Problems) != 0 {
		t.Fatalf("problems: %q", f.Problems)
	}
	lib, err := cff.Read(bytes.NewReader(data))
	if err != nil {
		t.Fatalf("library rejects the assembled font: %v", err)
	}
	if lib.NumGlyphs() != len(f.CharStrings) {
		t.Fatalf("glyph count: library %d, refcff %d", lib.NumGlyphs(), len(f.CharStrings))
	}
	if lib.FontName != f.Name {
		t.Errorf("font name: library %q, refcff %q", lib.FontName, f.Name)
	}
	if lib.IsCIDKeyed() != cid || f.IsCID != cid {
		t.Errorf("CID-keyed: library %v, refcff %v, want %v", lib.IsCIDKeyed(), f.IsCID, cid)
	}
	if len(lib.Private) != len(f.Privates) {
		t.Errorf("private dicts: library %d, refcff %d", len(lib.Private), len(f.Privates))
	}
	for gid := range f.CharStrings {
		lg := lib.Glyphs[gid]
		g, err := reft2.Interpret(f.CharStrings[gid], envFor(f, gid))
		if err != nil {
			t.Errorf("glyph %d: %v", gid, err)
			continue
		}
		if math.Abs(lg.Width-g.Width) > 1e-4 {
			t.Errorf("glyph %d: width: library %g, reference %g", gid, lg.Width, g.Width)
		}
		if cid {
			if int(lib.GIDToCID[gid]) != f.Charset[gid] {
				t.Errorf("glyph %d: CID: library %d, refcff %d", gid, lib.GIDToCID[gid], f.Charset[gid])
			}
			if fd := lib.FDSelect(glyph.ID(gid)); fd != f.FDSelect[gid] {
				t.Errorf("glyph %d: FD: library %d, refcff %d", gid, fd, f.FDSelect[gid])
			}
		} else {
			if name := f.SIDString(f.Charset[gid]); lg.Name != name {
				t.Errorf("glyph %d: name: library %q, refcff %q", gid, lg.Name, name)
			}
		}
		if got, want := libOps(lg), refOps(g); got != want {
			t.Errorf("glyph %d: outline: library %q, reference %q", gid, got, want)
		}
		if len(lg.HStem)+len(g.HStem) > 0 && !reflect.DeepEqual(lg.HStem, g.HStem) {
			t.Errorf("glyph %d: hstem: library %v, reference %v", gid, lg.HStem, g.HStem)
		}
		if len(lg.VStem)+len(g.VStem) > 0 && !reflect.DeepEqual(lg.VStem, g.VStem) {
			t.Errorf("glyph %d: vstem: library %v, reference %v", gid, lg.VStem, g.VStem)
		}
	}
}

func TestLibraryAcceptsSimple(t *testing.T) {
	spec, _ := simpleSpec()
	crossCheckLibrary(t, Assemble(spec), false)
}

func TestLibraryAcceptsCID(t *testing.T) {
	spec, _ := cidSpec()
	crossCheckLibrary(t, Assemble(spec), true)
}

// All 390 standard glyph names, resolved once by the library's table of
// standard strings and once by ours.
func TestLibraryStdStrings(t *testing.T) {
	spec := &AsmSpec{Name: "Std", Privates: []AsmPrivate{{DefaultWidthX: 500}}}
	spec.CharStrings = append(spec.CharStrings, t2("endchar"))
	for sid := 1; sid < NumStdStrings; sid++ {
		spec.CharStrings = append(spec.CharStrings, t2(sid, "endchar"))
		spec.GlyphNames = append(spec.GlyphNames, stdStrings[sid])
	}
	data := Assemble(spec)
	f, err := Parse(data)
	if err != nil || len(f.Problems) != 0 {
		t.Fatalf("%v %q", err, f.Problems)
	}
	if len(f.Strings) != 0 {
		t.Errorf("custom strings: %q", f.Strings)
	}
	lib, err := cff.Read(bytes.NewReader(data))
	if err != nil {
		t.Fatal(err)
	}
	if lib.NumGlyphs() != NumStdStrings {
		t.Fatalf("glyph count %d", lib.NumGlyphs())
	}
	for gid := 0; gid < NumStdStrings; gid++ {
		if f.Charset[gid] != gid {
			t.Errorf("glyph %d has SID %d", gid, f.Charset[gid])
		}
		if lib.Glyphs[gid].Name != stdStrings[gid] {
			t.Errorf("SID %d: library %q, refcff %q", gid, lib.Glyphs[gid].Name, stdStrings[gid])
		}
		if want := float64(gid); gid > 0 && lib.Glyphs[gid].Width != want {
			t.Errorf("glyph %d: library width %g", gid, lib.Glyphs[gid].Width)
		}
	}
}
