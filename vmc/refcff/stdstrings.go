package refcff

// NumStdStrings is the number of standard strings (TN5176, Appendix A).
const NumStdStrings = 391

// stdStrings lists the standard strings of TN5176, Appendix A, indexed by SID.
var stdStrings = [NumStdStrings]string{
	// 0
	".notdef", "space", "exclam", "quotedbl", "numbersign", "dollar", "percent", "ampersand", "quoteright", "parenleft",
	// 10
	"parenright", "asterisk", "plus", "comma", "hyphen", "period", "slash", "zero", "one", "two",
	// 20
	"three", "four", "five", "six", "seven", "eight", "nine", "colon", "semicolon", "less",
	// 30
	"equal", "greater", "question", "at", "A", "B", "C", "D", "E", "F",
	// 40
	"G", "H", "I", "J", "K", "L", "M", "N", "O", "P",
	// 50
	"Q", "R", "S", "T", "U", "V", "W", "X", "Y", "Z",
	// 60
	"bracketleft", "backslash", "bracketright", "asciicircum", "underscore", "quoteleft", "a", "b", "c", "d",
	// 70
	"e", "f", "g", "h", "i", "j", "k", "l", "m", "n",
	// 80
	"o", "p", "q", "r", "s", "t", "u", "v", "w", "x",
	// 90
	"y", "z", "braceleft", "bar", "braceright", "asciitilde", "exclamdown", "cent", "sterling", "fraction",
	// 100
	"yen", "florin", "section", "currency", "quotesingle", "quotedblleft", "guillemotleft", "guilsinglleft", "guilsinglright", "fi",
	// 110
	"fl", "endash", "dagger", "daggerdbl", "periodcentered", "paragraph", "bullet", "quotesinglbase", "quotedblbase", "quotedblright",
	// 120
	"guillemotright", "ellipsis", "perthousand", "questiondown", "grave", "acute", "circumflex", "tilde", "macron", "breve",
	// 130
	"dotaccent", "dieresis", "ring", "cedilla", "hungarumlaut", "ogonek", "caron", "emdash", "AE", "ordfeminine",
	// 140
	"Lslash", "Oslash", "OE", "ordmasculine", "ae", "dotlessi", "lslash", "oslash", "oe", "germandbls",
	// 150
	"onesuperior", "logicalnot", "mu", "trademark", "Eth", "onehalf", "plusminus", "Thorn", "onequarter", "divide",
	// 160
	"brokenbar", "degree", "thorn", "threequarters", "twosuperior", "registered", "minus", "eth", "multiply", "threesuperior",
	// 170
	"copyright", "Aacute", "Acircumflex", "Adieresis", "Agrave", "Aring", "Atilde", "Ccedilla", "Eacute", "Ecircumflex",
	// 180
	"Edieresis", "Egrave", "Iacute", "Icircumflex", "Idieresis", "Igrave", "Ntilde", "Oacute", "Ocircumflex", "Odieresis",
	// 190
	"Ograve", "Otilde", "Scaron", "Uacute", "Ucircumflex", "Udieresis", "Ugrave", "Yacute", "Ydieresis", "Zcaron",
	// 200
	"aacute", "acircumflex", "adieresis", "agrave", "aring", "atilde", "ccedilla", "eacute", "ecircumflex", "edieresis",
	// 210
	"egrave", "iacute", "icircumflex", "idieresis", "igrave", "ntilde", "oacute", "ocircumflex", "odieresis", "ograve",
	// 220
	"otilde", "scaron", "uacute", "ucircumflex", "udieresis", "ugrave", "yacute", "ydieresis", "zcaron", "exclamsmall",
	// 230
	"Hungarumlautsmall", "dollaroldstyle", "dollarsuperior", "ampersandsmall", "Acutesmall", "parenleftsuperior", "parenrightsuperior", "twodotenleader", "onedotenleader", "zerooldstyle",
	// 240
	"oneoldstyle", "twooldstyle", "threeoldstyle", "fouroldstyle", "fiveoldstyle", "sixoldstyle", "sevenoldstyle", "eightoldstyle", "nineoldstyle", "commasuperior",
	// 250
	"threequartersemdash", "periodsuperior", "questionsmall", "asuperior", "bsuperior", "centsuperior", "dsuperior", "esuperior", "isuperior", "lsuperior",
	// 260
	"msuperior", "nsuperior", "osuperior", "rsuperior", "ssuperior", "tsuperior", "ff", "ffi", "ffl", "parenleftinferior",
	// 270
	"parenrightinferior", "Circumflexsmall", "hyphensuperior", "Gravesmall", "Asmall", "Bsmall", "Csmall", "Dsmall", "Esmall", "Fsmall",
	// 280
	"Gsmall", "Hsmall", "Ismall", "Jsmall", "Ksmall", "Lsmall", "Msmall", "Nsmall", "Osmall", "Psmall",
	// 290
	"Qsmall", "Rsmall", "Ssmall", "Tsmall", "Usmall", "Vsmall", "Wsmall", "Xsmall", "Ysmall", "Zsmall",
	// 300
	"colonmonetary", "onefitted", "rupiah", "Tildesmall", "exclamdownsmall", "centoldstyle", "Lslashsmall", "Scaronsmall", "Zcaronsmall", "Dieresissmall",
	// 310
	"Brevesmall", "Caronsmall", "Dotaccentsmall", "Macronsmall", "figuredash", "hypheninferior", "Ogoneksmall", "Ringsmall", "Cedillasmall", "questiondownsmall",
	// 320
	"oneeighth", "threeeighths", "fiveeighths", "seveneighths", "onethird", "twothirds", "zerosuperior", "foursuperior", "fivesuperior", "sixsuperior",
	// 330
	"sevensuperior", "eightsuperior", "ninesuperior", "zeroinferior", "oneinferior", "twoinferior", "threeinferior", "fourinferior", "fiveinferior", "sixinferior",
	// 340
	"seveninferior", "eightinferior", "nineinferior", "centinferior", "dollarinferior", "periodinferior", "commainferior", "Agravesmall", "Aacutesmall", "Acircumflexsmall",
	// 350
	"Atildesmall", "Adieresissmall", "Aringsmall", "AEsmall", "Ccedillasmall", "Egravesmall", "Eacutesmall", "Ecircumflexsmall", "Edieresissmall", "Igravesmall",
	// 360
	"Iacutesmall", "Icircumflexsmall", "Idieresissmall", "Ethsmall", "Ntildesmall", "Ogravesmall", "Oacutesmall", "Ocircumflexsmall", "Otildesmall", "Odieresissmall",
	// 370
	"OEsmall", "Oslashsmall", "Ugravesmall", "Uacutesmall", "Ucircumflexsmall", "Udieresissmall", "Yacutesmall", "Thornsmall", "Ydieresissmall", "001.000",
	// 380
	"001.001", "001.002", "001.003", "Black", "Bold", "Book", "Light", "Medium", "Regular", "Roman",
	// 390
	"Semibold",
}
