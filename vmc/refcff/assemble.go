package refcff

import (
	"fmt"
	"math"
	"strconv"
)

// AsmPrivate describes one Private DICT of a font to be assembled.
type AsmPrivate struct {
	DefaultWidthX, NominalWidthX float64
	LocalSubrs                   [][]byte
	Extra                        []byte // raw operand/operator bytes put at the start of the Private DICT
}

// AsmSpec describes a font to be assembled.
type AsmSpec struct {
	Name        string
	CharStrings [][]byte // glyph 0 first
	GlobalSubrs [][]byte
	GlyphNames  []string // simple font: names of glyphs 1..n-1 (glyph 0 is .notdef); ignored for CID
	CID         bool
	Privates    []AsmPrivate // exactly 1 for a simple font, >=1 for CID
	FDSelect    []int        // CID: per-glyph FD index (format 0 is emitted)
	Predefined  int          // simple font: 1, 2, 3 = use the predefined charset ISOAdobe, Expert, ExpertSubset (charset operand 0, 1, 2; no charset data); GlyphNames is ignored
	TopExtra    []byte       // raw operand/operator bytes put at the start of the Top DICT (e.g. a FontMatrix in a chosen operand encoding)
	FDExtra     [][]byte     // CID: raw bytes put at the start of the i-th Font DICT

	// PrivateSize, if non-zero, is written as the size operand of every Private operator instead of the true
	// size of the Private DICT (a hostile file: the declared size runs far past the end of the data).
	PrivateSize int
}

// DictEntry encodes one DICT entry from operands and an operator; an operand given as int is written as a
// DICT integer, a float64 as a DICT real number (also when its value is integral).
func DictEntry(op int, operands ...any) []byte {
	var d []byte
	for _, x := range operands {
		switch x := x.(type) {
		case int:
			d = append(d, encodeInt(x)...)
		case float64:
			d = append(d, encodeReal(x)...)
		default:
			panic("refcff: operand must be int or float64")
		}
	}
	return append(d, encodeOp(op)...)
}

// encodeInt returns the shortest DICT encoding of an integer.
func encodeInt(v int) []byte {
	switch {
	case v >= -107 && v <= 107:
		return []byte{byte(v + 139)}
	case v >= 108 && v <= 1131:
		v -= 108
		return []byte{byte(v>>8) + 247, byte(v)}
	case v >= -1131 && v <= -108:
		v = -v - 108
		return []byte{byte(v>>8) + 251, byte(v)}
	case v >= -32768 && v <= 32767:
		return []byte{28, byte(v >> 8), byte(v)}
	default:
		return encodeInt5(v)
	}
}

// encodeInt5 returns the fixed-size five byte DICT encoding of an integer.
func encodeInt5(v int) []byte {
	return []byte{29, byte(v >> 24), byte(v >> 16), byte(v >> 8), byte(v)}
}

// encodeReal returns the nibble encoding of a real number.
func encodeReal(v float64) []byte {
	text := strconv.FormatFloat(v, 'g', -1, 64) // e.g. "-0.5", "1.5e-07", "1e+21"
	var nibbles []byte
	for i := 0; i < len(text); i++ {
		c := text[i]
		switch {
		case c >= '0' && c <= '9':
			nibbles = append(nibbles, c-'0')
		case c == '.':
			nibbles = append(nibbles, 0xa)
		case c == '-':
			nibbles = append(nibbles, 0xe)
		case c == 'e':
			if text[i+1] == '-' {
				nibbles = append(nibbles, 0xc)
			} else {
				nibbles = append(nibbles, 0xb)
			}
			i++ // skip the sign of the exponent
		default:
			panic("refcff: cannot encode " + text)
		}
	}
	nibbles = append(nibbles, 0xf)
	if len(nibbles)%2 == 1 {
		nibbles = append(nibbles, 0xf)
	}
	out := []byte{30}
	for i := 0; i < len(nibbles); i += 2 {
		out = append(out, nibbles[i]<<4|nibbles[i+1])
	}
	return out
}

// encodeNum encodes a DICT operand: integers with the shortest integer
// encoding, everything else as a real number.
func encodeNum(v float64) []byte {
	if v == math.Trunc(v) && math.Abs(v) <= math.MaxInt32 {
		return encodeInt(int(v))
	}
	return encodeReal(v)
}

// encodeOp encodes a DICT operator (escaped operators are 1200+x).
func encodeOp(op int) []byte {
	if op >= 1200 {
		return []byte{12, byte(op - 1200)}
	}
	return []byte{byte(op)}
}

// buildIndex encodes an INDEX with the minimal offSize.
func buildIndex(items [][]byte) []byte {
	if len(items) > 0xFFFF {
		panic("refcff: too many objects for an INDEX")
	}
	out := []byte{byte(len(items) >> 8), byte(len(items))}
	if len(items) == 0 {
		return out
	}
	total := 0
	for _, it := range items {
		total += len(it)
	}
	offSize := minOffSize(total + 1)
	out = append(out, byte(offSize))
	off := 1
	for i := 0; i <= len(items); i++ {
		for j := offSize - 1; j >= 0; j-- {
			out = append(out, byte(off>>(8*uint(j))))
		}
		if i < len(items) {
			off += len(items[i])
		}
	}
	for _, it := range items {
		out = append(out, it...)
	}
	return out
}

// buildPrivate encodes a Private DICT followed by its Local Subr INDEX.
// It returns the combined data and the size of the DICT alone.
func buildPrivate(p AsmPrivate) (data []byte, dictSize int) {
	var d []byte
	d = append(d, p.Extra...)
	d = append(d, encodeNum(p.DefaultWidthX)...)
	d = append(d, encodeOp(opDefaultWidthX)...)
	d = append(d, encodeNum(p.NominalWidthX)...)
	d = append(d, encodeOp(opNominalWidthX)...)
	if len(p.LocalSubrs) == 0 {
		return d, len(d)
	}
	// The subrs follow the DICT directly, so the Subrs offset equals the
	// DICT size, which in turn depends on the length of the encoded offset.
	size := len(d) + 2
	for len(d)+len(encodeInt(size))+1 != size {
		size++
	}
	d = append(d, encodeInt(size)...)
	d = append(d, encodeOp(opSubrs)...)
	return append(d, buildIndex(p.LocalSubrs)...), size
}

// Assemble builds a minimal, valid CFF table.  It panics if the spec is
// inconsistent (no glyphs, wrong number of Privates, FD index out of range).
//
// Layout: header, Name INDEX, Top DICT INDEX, String INDEX, Global Subr
// INDEX, charset (format 0), [FDSelect (format 0)], CharStrings INDEX,
// [FDArray INDEX], Private DICT 0, Local Subr INDEX 0, Private DICT 1, ...
func Assemble(spec *AsmSpec) []byte {
	n := len(spec.CharStrings)
	if n == 0 {
		panic("refcff: no glyphs")
	}
	if !spec.CID && len(spec.Privates) != 1 {
		panic("refcff: a simple font needs exactly one Private")
	}
	if spec.CID && (len(spec.Privates) < 1 || len(spec.Privates) > 256) {
		panic("refcff: a CID font needs between 1 and 256 Privates")
	}

	// ---- strings and charset ----
	var custom []string
	sidOf := map[string]int{}
	for i, s := range stdStrings {
		sidOf[s] = i
	}
	sid := func(s string) int {
		if v, ok := sidOf[s]; ok {
			return v
		}
		v := NumStdStrings + len(custom)
		custom = append(custom, s)
		sidOf[s] = v
		return v
	}
	var rosRegistry, rosOrdering int
	if spec.CID {
		rosRegistry = sid("Adobe")
		rosOrdering = sid("Identity")
	}
	charset := []byte{0} // format 0
	if spec.Predefined > 0 && !spec.CID {
		charset = nil
	}
	for g := 1; g < n && charset != nil; g++ {
		v := g // CID = glyph index
		if !spec.CID {
			name := fmt.Sprintf("glyph%d", g)
			if g-1 < len(spec.GlyphNames) {
				name = spec.GlyphNames[g-1]
			}
			v = sid(name)
		}
		charset = append(charset, byte(v>>8), byte(v))
	}

	// ---- FDSelect ----
	var fdSelect []byte
	if spec.CID {
		fdSelect = []byte{0} // format 0
		for g := 0; g < n; g++ {
			fd := 0
			if g < len(spec.FDSelect) {
				fd = spec.FDSelect[g]
			}
			if fd < 0 || fd >= len(spec.Privates) {
				panic("refcff: FDSelect entry out of range")
			}
			fdSelect = append(fdSelect, byte(fd))
		}
	}

	// ---- the pieces whose size does not depend on the layout ----
	header := []byte{1, 0, 4, 4}
	nameIndex := buildIndex([][]byte{[]byte(spec.Name)})
	var stringItems [][]byte
	for _, s := range custom {
		stringItems = append(stringItems, []byte(s))
	}
	stringIndex := buildIndex(stringItems)
	gsubrIndex := buildIndex(spec.GlobalSubrs)
	charStrings := buildIndex(spec.CharStrings)
	var privData [][]byte
	var privSize []int
	for _, p := range spec.Privates {
		d, size := buildPrivate(p)
		privData = append(privData, d)
		if spec.PrivateSize != 0 {
			size = spec.PrivateSize
		}
		privSize = append(privSize, size)
	}

	// All offsets in the Top DICT and in the Font DICTs use the five byte
	// integer form, so that the sizes of these DICTs do not depend on the
	// offset values.
	topDict := func(charsetOff, fdSelectOff, charStringsOff, fdArrayOff, privOff int) []byte {
		var d []byte
		if spec.CID {
			// (the ROS operator must come first in the Top DICT of a CID-keyed font)
			d = append(d, encodeInt(rosRegistry)...)
			d = append(d, encodeInt(rosOrdering)...)
			d = append(d, encodeInt(0)...)
			d = append(d, encodeOp(opROS)...)
			d = append(d, encodeInt(n)...)
			d = append(d, encodeOp(opCIDCount)...)
		}
		d = append(d, spec.TopExtra...)
		if charset == nil {
			charsetOff = spec.Predefined - 1 // the ids of the predefined charsets take the place of the offset
		}
		d = append(d, encodeInt5(charsetOff)...)
		d = append(d, encodeOp(opCharset)...)
		if spec.CID {
			d = append(d, encodeInt5(fdSelectOff)...)
			d = append(d, encodeOp(opFDSelect)...)
		}
		d = append(d, encodeInt5(charStringsOff)...)
		d = append(d, encodeOp(opCharStrings)...)
		if spec.CID {
			d = append(d, encodeInt5(fdArrayOff)...)
			d = append(d, encodeOp(opFDArray)...)
		} else {
			d = append(d, encodeInt5(privSize[0])...)
			d = append(d, encodeInt5(privOff)...)
			d = append(d, encodeOp(opPrivate)...)
		}
		return d
	}
	fdArray := func(privOff []int) []byte {
		var items [][]byte
		for i := range spec.Privates {
			var d []byte
			if i < len(spec.FDExtra) {
				d = append(d, spec.FDExtra[i]...)
			}
			d = append(d, encodeInt5(privSize[i])...)
			d = append(d, encodeInt5(privOff[i])...)
			d = append(d, encodeOp(opPrivate)...)
			items = append(items, d)
		}
		return buildIndex(items)
	}

	// ---- layout ----
	privOff := make([]int, len(spec.Privates))
	topIndexLen := len(buildIndex([][]byte{topDict(0, 0, 0, 0, 0)}))
	pos := len(header) + len(nameIndex) + topIndexLen + len(stringIndex) + len(gsubrIndex)
	charsetOff := pos
	pos += len(charset)
	fdSelectOff := pos
	pos += len(fdSelect)
	charStringsOff := pos
	pos += len(charStrings)
	fdArrayOff := pos
	if spec.CID {
		pos += len(fdArray(privOff))
	}
	for i := range privData {
		privOff[i] = pos
		pos += len(privData[i])
	}
	header[3] = byte(minOffSize(pos))

	// ---- output ----
	var out []byte
	out = append(out, header...)
	out = append(out, nameIndex...)
	out = append(out, buildIndex([][]byte{topDict(charsetOff, fdSelectOff, charStringsOff, fdArrayOff, privOff[0])})...)
	out = append(out, stringIndex...)
	out = append(out, gsubrIndex...)
	out = append(out, charset...)
	out = append(out, fdSelect...)
	out = append(out, charStrings...)
	if spec.CID {
		out = append(out, fdArray(privOff)...)
	}
	for _, d := range privData {
		out = append(out, d...)
	}
	if len(out) != pos {
		panic("refcff: internal error: layout mismatch")
	}
	return out
}

// StdString returns the i-th standard string (SID i).
func StdString(i int) string { return stdStrings[i] }
