// Package refcff is a minimal reference reader and assembler for CFF font
// tables, written from Adobe Technical Note #5176 "The Compact Font Format
// Specification".
//
// It is meant to be used as a test oracle: it favours clarity over speed.
package refcff

import (
	"errors"
	"fmt"
	"math"
	"strconv"
	"strings"
)

// Dict is a parsed DICT: operator -> operands.  Escaped operators "12 x" are
// keyed as 1200+x.
type Dict map[int][]float64

// DICT operators used by this package.
const (
	opCharset       = 15
	opEncoding      = 16
	opCharStrings   = 17
	opPrivate       = 18
	opSubrs         = 19
	opDefaultWidthX = 20
	opNominalWidthX = 21
	opCharstrType   = 1206
	opROS           = 1230
	opCIDCount      = 1234
	opFDArray       = 1236
	opFDSelect      = 1237
)

// Private is a Private DICT together with the data it points to.
type Private struct {
	Dict          Dict
	DefaultWidthX float64  // operator 20, default 0
	NominalWidthX float64  // operator 21, default 0
	LocalSubrs    [][]byte // operator 19 (offset relative to the start of the Private DICT), nil if absent
}

// Font is the result of walking a CFF table.
type Font struct {
	Name           string
	Top            Dict
	Strings        []string // the String INDEX (custom strings only; SID n>=391 is Strings[n-391])
	GlobalSubrs    [][]byte
	CharStrings    [][]byte
	IsCID          bool        // Top has ROS (12 30)
	Charset        []int       // per glyph: SID (simple font) or CID (CID-keyed); entry 0 is always 0; nil for predefined charsets
	CharsetID      int         // offset value from the Top DICT (0,1,2 = predefined)
	CharsetFormat  int         // 0,1,2 when a custom charset is present
	Encoding       map[int]int // code -> glyph index for custom encodings; nil for predefined
	EncodingID     int         // offset value from the Top DICT (0,1 = predefined)
	EncodingFormat int         // format byte & 0x7f
	FDSelect       []int       // per glyph font-dict index (CID fonts), nil otherwise
	FDSelectFormat int
	FDArray        []Dict     // Font DICTs (CID)
	Privates       []*Private // one per FD (CID) or exactly one (simple)
	Problems       []string   // structural problems found; empty for a well-formed font
}

// SIDString returns the string for a SID, using the 391 standard strings of
// TN5176 Appendix A for sid < 391.  It returns "" for an undefined SID.
func (f *Font) SIDString(sid int) string {
	if sid < 0 {
		return ""
	}
	if sid < NumStdStrings {
		return stdStrings[sid]
	}
	if sid-NumStdStrings < len(f.Strings) {
		return f.Strings[sid-NumStdStrings]
	}
	return ""
}

type parser struct {
	data     []byte
	f        *Font
	hdrSize  int
	fixedEnd int // end of the Global Subr INDEX: everything before this is header or one of the four leading INDEXes
}

func (p *parser) problem(format string, args ...interface{}) {
	p.f.Problems = append(p.f.Problems, fmt.Sprintf(format, args...))
}

// Parse walks a complete CFF table.  It returns an error only if the data is
// so broken that walking cannot continue; in this case the returned Font is
// non-nil and holds what was found so far.  Recoverable structural problems
// are appended to Font.Problems.
func Parse(data []byte) (*Font, error) {
	f := &Font{}
	p := &parser{data: data, f: f}
	err := p.parse()
	if err != nil {
		p.problem("fatal: %v", err)
	}
	return f, err
}

func (p *parser) parse() error {
	data := p.data
	f := p.f

	// ---- header ----
	if len(data) < 4 {
		return errors.New("refcff: data too short for a CFF header")
	}
	if data[0] != 1 {
		return fmt.Errorf("refcff: unsupported major version %d", data[0])
	}
	p.hdrSize = int(data[2])
	if p.hdrSize < 4 {
		return fmt.Errorf("refcff: invalid hdrSize %d", p.hdrSize)
	}
	if p.hdrSize > len(data) {
		return errors.New("refcff: header runs past the end of the data")
	}
	if data[3] < 1 || data[3] > 4 {
		p.problem("header: offSize %d not in 1..4", data[3])
	}

	// ---- the four INDEXes which follow the header ----
	names, pos, err := p.readIndex(p.hdrSize, "Name INDEX")
	if err != nil {
		return err
	}
	topDicts, pos, err := p.readIndex(pos, "Top DICT INDEX")
	if err != nil {
		return err
	}
	strs, pos, err := p.readIndex(pos, "String INDEX")
	if err != nil {
		return err
	}
	gsubrs, pos, err := p.readIndex(pos, "Global Subr INDEX")
	if err != nil {
		return err
	}
	p.fixedEnd = pos

	if len(names) != 1 {
		p.problem("Name INDEX has %d entries, want 1", len(names))
	}
	if len(topDicts) != len(names) {
		p.problem("Top DICT INDEX has %d entries, Name INDEX has %d", len(topDicts), len(names))
	}
	if len(names) == 0 || len(topDicts) == 0 {
		return errors.New("refcff: no font in the fontset")
	}
	f.Name = string(names[0])
	for _, s := range strs {
		f.Strings = append(f.Strings, string(s))
	}
	if len(gsubrs) > 0 {
		f.GlobalSubrs = gsubrs
	}

	// ---- Top DICT ----
	f.Top = p.parseDict(topDicts[0], "Top DICT")
	_, f.IsCID = f.Top[opROS]
	if v, ok := f.Top[opCharstrType]; ok && (len(v) != 1 || v[0] != 2) {
		p.problem("Top DICT: CharstringType %v, want 2", v)
	}

	// ---- CharStrings ----
	csOff, ok := p.offsetOperand(f.Top, opCharStrings, 0, "Top DICT: CharStrings")
	if !ok {
		return errors.New("refcff: Top DICT has no usable CharStrings offset")
	}
	p.checkOffset(csOff, "CharStrings INDEX")
	f.CharStrings, _, err = p.readIndex(csOff, "CharStrings INDEX")
	if err != nil {
		return err
	}
	nGlyphs := len(f.CharStrings)
	if nGlyphs == 0 {
		p.problem("CharStrings INDEX is empty")
	}

	// ---- charset ----
	f.CharsetID = 0
	if _, present := f.Top[opCharset]; present {
		off, ok := p.offsetOperand(f.Top, opCharset, 0, "Top DICT: charset")
		if ok {
			f.CharsetID = off
		}
	}
	if f.CharsetID > 2 {
		p.checkOffset(f.CharsetID, "charset")
		p.readCharset(f.CharsetID, nGlyphs)
	} else if f.IsCID {
		p.problem("CID-keyed font uses predefined charset %d", f.CharsetID)
	}

	// ---- Encoding ----
	if _, present := f.Top[opEncoding]; present {
		off, ok := p.offsetOperand(f.Top, opEncoding, 0, "Top DICT: Encoding")
		if ok {
			f.EncodingID = off
		}
		if f.IsCID {
			p.problem("CID-keyed font has an Encoding")
		}
	}
	if f.EncodingID > 1 {
		p.checkOffset(f.EncodingID, "Encoding")
		p.readEncoding(f.EncodingID, nGlyphs)
	}

	// ---- Private DICTs ----
	if !f.IsCID {
		f.Privates = []*Private{p.readPrivate(f.Top, "Top DICT")}
		return nil
	}

	// ---- CID-keyed fonts: FDArray and FDSelect ----
	fdaOff, ok := p.offsetOperand(f.Top, opFDArray, 0, "Top DICT: FDArray")
	if !ok {
		return errors.New("refcff: CID-keyed font has no usable FDArray offset")
	}
	p.checkOffset(fdaOff, "FDArray INDEX")
	fds, _, err := p.readIndex(fdaOff, "FDArray INDEX")
	if err != nil {
		return err
	}
	if len(fds) == 0 {
		p.problem("FDArray INDEX is empty")
	}
	if len(fds) > 256 {
		p.problem("FDArray INDEX has %d entries, more than 256", len(fds))
	}
	for i, b := range fds {
		name := fmt.Sprintf("Font DICT %d", i)
		d := p.parseDict(b, name)
		f.FDArray = append(f.FDArray, d)
		f.Privates = append(f.Privates, p.readPrivate(d, name))
	}

	fdsOff, ok := p.offsetOperand(f.Top, opFDSelect, 0, "Top DICT: FDSelect")
	if !ok {
		p.problem("CID-keyed font has no usable FDSelect offset")
		return nil
	}
	p.checkOffset(fdsOff, "FDSelect")
	p.readFDSelect(fdsOff, nGlyphs)
	return nil
}

// checkOffset records a problem if an object located through an offset lies
// inside the header or inside one of the four INDEXes which follow it.
func (p *parser) checkOffset(off int, name string) {
	if off < p.hdrSize {
		p.problem("%s at offset %d overlaps the header (%d bytes)", name, off, p.hdrSize)
	} else if off < p.fixedEnd {
		p.problem("%s at offset %d overlaps the INDEXes following the header (which end at %d)", name, off, p.fixedEnd)
	}
}

// offsetOperand returns operand number i of operator op as an integer offset.
func (p *parser) offsetOperand(d Dict, op, i int, name string) (int, bool) {
	v, ok := d[op]
	if !ok {
		return 0, false
	}
	if i >= len(v) {
		p.problem("%s: missing operand", name)
		return 0, false
	}
	if v[i] != math.Trunc(v[i]) || v[i] < 0 || v[i] > math.MaxInt32 {
		p.problem("%s: operand %v is not a valid offset", name, v[i])
		return 0, false
	}
	return int(v[i]), true
}

func minOffSize(maxOffset int) int {
	switch {
	case maxOffset <= 0xFF:
		return 1
	case maxOffset <= 0xFFFF:
		return 2
	case maxOffset <= 0xFFFFFF:
		return 3
	default:
		return 4
	}
}

// readIndex reads the INDEX which starts at pos.  It returns the objects and
// the position of the first byte after the INDEX.
func (p *parser) readIndex(pos int, name string) ([][]byte, int, error) {
	data := p.data
	if pos < 0 || pos+2 > len(data) {
		return nil, 0, fmt.Errorf("refcff: %s: count runs past the end of the data", name)
	}
	count := int(data[pos])<<8 | int(data[pos+1])
	if count == 0 {
		return [][]byte{}, pos + 2, nil
	}
	if pos+3 > len(data) {
		return nil, 0, fmt.Errorf("refcff: %s: offSize runs past the end of the data", name)
	}
	offSize := int(data[pos+2])
	if offSize < 1 || offSize > 4 {
		p.problem("%s: offSize %d not in 1..4", name, offSize)
		return nil, 0, fmt.Errorf("refcff: %s: offSize %d not in 1..4", name, offSize)
	}
	offStart := pos + 3
	offEnd := offStart + (count+1)*offSize
	if offEnd > len(data) {
		return nil, 0, fmt.Errorf("refcff: %s: offset array runs past the end of the data", name)
	}
	offs := make([]int, count+1)
	for i := range offs {
		v := 0
		for j := 0; j < offSize; j++ {
			v = v<<8 | int(data[offStart+i*offSize+j])
		}
		offs[i] = v
	}
	base := offEnd - 1 // offsets are relative to the byte preceding the object data

	if offs[0] != 1 {
		p.problem("%s: first offset is %d, want 1", name, offs[0])
	}
	monotone := true
	for i := 0; i < count; i++ {
		if offs[i+1] < offs[i] {
			monotone = false
		}
	}
	if !monotone {
		p.problem("%s: offsets are not monotone", name)
	}
	last := offs[count]
	if last < 1 || base+last > len(data) {
		return nil, 0, fmt.Errorf("refcff: %s: object data runs past the end of the data", name)
	}
	if need := minOffSize(last); offSize > need {
		p.problem("non-minimal offSize: %s uses offSize %d, but %d suffices for last offset %d", name, offSize, need, last)
	}

	items := make([][]byte, count)
	for i := range items {
		a, b := offs[i], offs[i+1]
		if a < 1 || a > b || base+b > len(data) {
			continue // reported above (not monotone / first offset) or below
		}
		if b > last {
			p.problem("%s: object %d extends past the last offset", name, i)
		}
		items[i] = data[base+a : base+b]
	}
	return items, base + last, nil
}

// parseReal decodes a nibble-encoded real number.  b starts after the
// operator byte 30.  It returns the value and the number of bytes used.
func parseReal(b []byte) (float64, int, error) {
	var sb strings.Builder
	for i, c := range b {
		for _, nib := range []byte{c >> 4, c & 0x0f} {
			switch {
			case nib <= 9:
				sb.WriteByte('0' + nib)
			case nib == 0xa:
				sb.WriteByte('.')
			case nib == 0xb:
				sb.WriteByte('E')
			case nib == 0xc:
				sb.WriteString("E-")
			case nib == 0xd:
				return 0, 0, errors.New("reserved nibble 0xd in real number")
			case nib == 0xe:
				sb.WriteByte('-')
			case nib == 0xf:
				v, err := strconv.ParseFloat(sb.String(), 64)
				if err != nil {
					return 0, 0, fmt.Errorf("malformed real number %q", sb.String())
				}
				return v, i + 1, nil
			}
		}
	}
	return 0, 0, errors.New("unterminated real number")
}

// parseDict decodes DICT data.  Problems are recorded; decoding stops at the
// first malformed byte.
func (p *parser) parseDict(b []byte, name string) Dict {
	d := Dict{}
	var operands []float64
	pos := 0
	for pos < len(b) {
		b0 := b[pos]
		pos++
		switch {
		case b0 <= 21: // operator
			op := int(b0)
			if b0 == 12 {
				if pos >= len(b) {
					p.problem("%s: truncated escape operator", name)
					return d
				}
				op = 1200 + int(b[pos])
				pos++
			}
			if _, dup := d[op]; dup {
				p.problem("%s: operator %d occurs more than once", name, op)
			}
			if operands == nil {
				operands = []float64{}
			}
			d[op] = operands
			operands = nil
			continue
		case b0 == 28:
			if pos+2 > len(b) {
				p.problem("%s: truncated number", name)
				return d
			}
			operands = append(operands, float64(int16(uint16(b[pos])<<8|uint16(b[pos+1]))))
			pos += 2
		case b0 == 29:
			if pos+4 > len(b) {
				p.problem("%s: truncated number", name)
				return d
			}
			v := int32(uint32(b[pos])<<24 | uint32(b[pos+1])<<16 | uint32(b[pos+2])<<8 | uint32(b[pos+3]))
			operands = append(operands, float64(v))
			pos += 4
		case b0 == 30:
			v, n, err := parseReal(b[pos:])
			if err != nil {
				p.problem("%s: %v", name, err)
				return d
			}
			operands = append(operands, v)
			pos += n
		case b0 >= 32 && b0 <= 246:
			operands = append(operands, float64(int(b0)-139))
		case b0 >= 247 && b0 <= 250:
			if pos >= len(b) {
				p.problem("%s: truncated number", name)
				return d
			}
			operands = append(operands, float64((int(b0)-247)*256+int(b[pos])+108))
			pos++
		case b0 >= 251 && b0 <= 254:
			if pos >= len(b) {
				p.problem("%s: truncated number", name)
				return d
			}
			operands = append(operands, float64(-(int(b0)-251)*256-int(b[pos])-108))
			pos++
		default: // 22..27, 31, 255
			p.problem("%s: reserved byte %d", name, b0)
			return d
		}
		if len(operands) > 48 {
			p.problem("%s: more than 48 operands", name)
			return d
		}
	}
	if len(operands) > 0 {
		p.problem("%s: %d operands without operator at the end", name, len(operands))
	}
	return d
}

// readPrivate reads the Private DICT (and its local subroutines) which the
// Private operator of d points to.  It always returns a non-nil Private.
func (p *parser) readPrivate(d Dict, name string) *Private {
	priv := &Private{Dict: Dict{}}
	v, ok := d[opPrivate]
	if !ok {
		p.problem("%s: no Private operator", name)
		return priv
	}
	if len(v) != 2 {
		p.problem("%s: Private has %d operands, want 2", name, len(v))
		return priv
	}
	size, ok1 := p.offsetOperand(d, opPrivate, 0, name+": Private size")
	off, ok2 := p.offsetOperand(d, opPrivate, 1, name+": Private offset")
	if !ok1 || !ok2 {
		return priv
	}
	pname := name + ": Private DICT"
	p.checkOffset(off, pname)
	if off+size > len(p.data) {
		p.problem("%s runs past the end of the data", pname)
		return priv
	}
	priv.Dict = p.parseDict(p.data[off:off+size], pname)
	if w, ok := priv.Dict[opDefaultWidthX]; ok {
		if len(w) == 1 {
			priv.DefaultWidthX = w[0]
		} else {
			p.problem("%s: defaultWidthX has %d operands", pname, len(w))
		}
	}
	if w, ok := priv.Dict[opNominalWidthX]; ok {
		if len(w) == 1 {
			priv.NominalWidthX = w[0]
		} else {
			p.problem("%s: nominalWidthX has %d operands", pname, len(w))
		}
	}
	if _, ok := priv.Dict[opSubrs]; ok {
		rel, ok := p.offsetOperand(priv.Dict, opSubrs, 0, pname+": Subrs")
		if ok {
			sname := name + ": Local Subr INDEX"
			p.checkOffset(off+rel, sname)
			subrs, _, err := p.readIndex(off+rel, sname)
			if err != nil {
				p.problem("%v", err)
			} else {
				priv.LocalSubrs = subrs
			}
		}
	}
	return priv
}

func (p *parser) u8(pos int) (int, bool) {
	if pos < 0 || pos >= len(p.data) {
		return 0, false
	}
	return int(p.data[pos]), true
}

func (p *parser) u16(pos int) (int, bool) {
	if pos < 0 || pos+2 > len(p.data) {
		return 0, false
	}
	return int(p.data[pos])<<8 | int(p.data[pos+1]), true
}

// readCharset reads a custom charset (formats 0, 1 and 2).
func (p *parser) readCharset(pos, nGlyphs int) {
	f := p.f
	format, ok := p.u8(pos)
	if !ok {
		p.problem("charset: offset %d is past the end of the data", pos)
		return
	}
	pos++
	f.CharsetFormat = format
	if nGlyphs == 0 {
		return
	}
	cs := []int{0}
	switch format {
	case 0:
		for len(cs) < nGlyphs {
			sid, ok := p.u16(pos)
			if !ok {
				p.problem("charset runs past the end of the data")
				break
			}
			pos += 2
			cs = append(cs, sid)
		}
	case 1, 2:
		for len(cs) < nGlyphs {
			first, ok1 := p.u16(pos)
			var nLeft int
			var ok2 bool
			if format == 1 {
				nLeft, ok2 = p.u8(pos + 2)
				pos += 3
			} else {
				nLeft, ok2 = p.u16(pos + 2)
				pos += 4
			}
			if !ok1 || !ok2 {
				p.problem("charset runs past the end of the data")
				break
			}
			if len(cs)+nLeft+1 > nGlyphs {
				p.problem("charset: range %d..%d covers more glyphs than CharStrings has", first, first+nLeft)
			}
			if first+nLeft > 0xFFFF {
				p.problem("charset: range %d..%d exceeds 65535", first, first+nLeft)
			}
			for i := 0; i <= nLeft && len(cs) < nGlyphs; i++ {
				cs = append(cs, first+i)
			}
		}
	default:
		p.problem("charset: unknown format %d", format)
		return
	}
	if len(cs) < nGlyphs {
		p.problem("charset covers %d glyphs, but CharStrings has %d", len(cs), nGlyphs)
	}
	f.Charset = cs
}

// readEncoding reads a custom encoding (formats 0 and 1, with supplements).
func (p *parser) readEncoding(pos, nGlyphs int) {
	f := p.f
	format, ok := p.u8(pos)
	if !ok {
		p.problem("Encoding: offset %d is past the end of the data", pos)
		return
	}
	pos++
	f.EncodingFormat = format & 0x7f
	enc := map[int]int{}
	f.Encoding = enc
	gid := 1
	set := func(code, g int) {
		if g >= nGlyphs {
			p.problem("Encoding: code %d maps to glyph %d, but CharStrings has %d glyphs", code, g, nGlyphs)
		}
		if _, dup := enc[code]; dup {
			p.problem("Encoding: code %d is encoded more than once", code)
		}
		enc[code] = g
	}
	switch format & 0x7f {
	case 0:
		nCodes, ok := p.u8(pos)
		if !ok {
			p.problem("Encoding runs past the end of the data")
			return
		}
		pos++
		for i := 0; i < nCodes; i++ {
			code, ok := p.u8(pos)
			if !ok {
				p.problem("Encoding runs past the end of the data")
				return
			}
			pos++
			set(code, gid)
			gid++
		}
	case 1:
		nRanges, ok := p.u8(pos)
		if !ok {
			p.problem("Encoding runs past the end of the data")
			return
		}
		pos++
		for i := 0; i < nRanges; i++ {
			first, ok1 := p.u8(pos)
			nLeft, ok2 := p.u8(pos + 1)
			if !ok1 || !ok2 {
				p.problem("Encoding runs past the end of the data")
				return
			}
			pos += 2
			if first+nLeft > 255 {
				p.problem("Encoding: range %d..%d exceeds 255", first, first+nLeft)
			}
			for j := 0; j <= nLeft; j++ {
				set((first+j)&0xff, gid)
				gid++
			}
		}
	default:
		p.problem("Encoding: unknown format %d", format&0x7f)
		return
	}
	if format&0x80 == 0 {
		return
	}
	nSups, ok := p.u8(pos)
	if !ok {
		p.problem("Encoding supplement runs past the end of the data")
		return
	}
	pos++
	for i := 0; i < nSups; i++ {
		code, ok1 := p.u8(pos)
		sid, ok2 := p.u16(pos + 1)
		if !ok1 || !ok2 {
			p.problem("Encoding supplement runs past the end of the data")
			return
		}
		pos += 3
		g := -1
		for k, s := range f.Charset {
			if s == sid {
				g = k
				break
			}
		}
		if g < 0 {
			p.problem("Encoding supplement: SID %d for code %d is not in the charset", sid, code)
			continue
		}
		// A supplement gives an additional code to a glyph.
		if _, dup := enc[code]; dup {
			p.problem("Encoding supplement: code %d is encoded more than once", code)
		}
		enc[code] = g
	}
}

// readFDSelect reads FDSelect formats 0 and 3.
func (p *parser) readFDSelect(pos, nGlyphs int) {
	f := p.f
	format, ok := p.u8(pos)
	if !ok {
		p.problem("FDSelect: offset %d is past the end of the data", pos)
		return
	}
	pos++
	f.FDSelectFormat = format
	sel := make([]int, 0, nGlyphs)
	switch format {
	case 0:
		for len(sel) < nGlyphs {
			fd, ok := p.u8(pos)
			if !ok {
				p.problem("FDSelect runs past the end of the data")
				break
			}
			pos++
			sel = append(sel, fd)
		}
	case 3:
		nRanges, ok := p.u16(pos)
		if !ok {
			p.problem("FDSelect runs past the end of the data")
			return
		}
		pos += 2
		if nRanges == 0 {
			p.problem("FDSelect: format 3 with no ranges")
		}
		for len(sel) < nGlyphs {
			sel = append(sel, -1) // -1 = not covered by any range
		}
		type range3 struct{ first, fd int }
		var ranges []range3
		for i := 0; i < nRanges; i++ {
			first, ok1 := p.u16(pos)
			fd, ok2 := p.u8(pos + 2)
			if !ok1 || !ok2 {
				p.problem("FDSelect runs past the end of the data")
				return
			}
			pos += 3
			ranges = append(ranges, range3{first, fd})
		}
		sentinel, ok := p.u16(pos)
		if !ok {
			p.problem("FDSelect runs past the end of the data")
			return
		}
		if sentinel != nGlyphs {
			p.problem("FDSelect: sentinel is %d, but CharStrings has %d glyphs", sentinel, nGlyphs)
		}
		if len(ranges) > 0 && ranges[0].first != 0 {
			p.problem("FDSelect: first range starts at %d, want 0", ranges[0].first)
		}
		for i, r := range ranges {
			next := sentinel
			if i+1 < len(ranges) {
				next = ranges[i+1].first
			}
			if next <= r.first {
				p.problem("FDSelect: range %d (first glyph %d) is not followed by a larger glyph index (%d)", i, r.first, next)
				continue
			}
			for g := r.first; g < next && g < nGlyphs; g++ {
				sel[g] = r.fd
			}
		}
		for g, fd := range sel {
			if fd < 0 {
				p.problem("FDSelect: glyph %d is not covered by any range", g)
				break
			}
		}
	default:
		p.problem("FDSelect: unknown format %d", format)
		return
	}
	if len(sel) < nGlyphs {
		p.problem("FDSelect covers %d glyphs, but CharStrings has %d", len(sel), nGlyphs)
	}
	for g, fd := range sel {
		if fd >= len(f.FDArray) {
			p.problem("FDSelect: glyph %d uses font DICT %d, but FDArray has %d entries", g, fd, len(f.FDArray))
			break
		}
	}
	f.FDSelect = sel
}
