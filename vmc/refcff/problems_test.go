package refcff

import (
	"reflect"
	"strings"
	"testing"
)

// ---- a builder for hand-made simple fonts ----

// rawIndex builds an INDEX with full control over offSize and offsets.
func rawIndex(offSize int, offsets []int, data []byte) []byte {
	count := len(offsets) - 1
	out := []byte{byte(count >> 8), byte(count), byte(offSize)}
	for _, off := range offsets {
		for j := offSize - 1; j >= 0; j-- {
			out = append(out, byte(off>>(8*uint(j))))
		}
	}
	return append(out, data...)
}

type rawSpec struct {
	header      []byte         // default {1, 0, 4, 1}
	nameIndex   []byte         // default: one name "Raw"
	strings     [][]byte       // custom strings
	charStrings []byte         // encoded INDEX; default: nGlyphs times "endchar"
	nGlyphs     int            // used for the default charStrings
	private     []byte         // Private DICT data, optionally followed by local subrs; default: empty DICT
	privSize    int            // size of the Private DICT proper; default: len(private)
	noPrivate   bool           // omit the Private operator
	charset     []byte         // custom charset data; nil: operator omitted unless charsetID is set
	charsetID   int            // predefined charset (used if charset is nil and charsetID > 0)
	encoding    []byte         // custom encoding data
	encodingID  int            // predefined encoding (used if encoding is nil and encodingID > 0)
	topExtra    []byte         // additional Top DICT entries
	override    map[int]int    // Top DICT offsets to lie about: operator -> offset
	noCS        bool           // omit the CharStrings operator
	patchTop    func(d []byte) // last minute changes to the Top DICT data
}

// build lays out: header, Name INDEX, Top DICT INDEX, String INDEX, Global
// Subr INDEX, CharStrings INDEX, Private DICT, charset, Encoding.
func (r *rawSpec) build() []byte {
	header := r.header
	if header == nil {
		header = []byte{1, 0, 4, 1}
	}
	nameIndex := r.nameIndex
	if nameIndex == nil {
		nameIndex = buildIndex([][]byte{[]byte("Raw")})
	}
	charStrings := r.charStrings
	if charStrings == nil {
		var cs [][]byte
		for i := 0; i < r.nGlyphs; i++ {
			cs = append(cs, []byte{14})
		}
		charStrings = buildIndex(cs)
	}
	stringIndex := buildIndex(r.strings)
	gsubrIndex := buildIndex(nil)

	top := func(csOff, privOff, charsetOff, encOff int) []byte {
		off := func(op, v int) int {
			if o, ok := r.override[op]; ok {
				return o
			}
			return v
		}
		var d []byte
		d = append(d, r.topExtra...)
		if r.charset != nil || r.charsetID > 0 {
			if r.charset == nil {
				charsetOff = r.charsetID
			}
			d = append(d, encodeInt5(off(opCharset, charsetOff))...)
			d = append(d, opCharset)
		}
		if r.encoding != nil || r.encodingID > 0 {
			if r.encoding == nil {
				encOff = r.encodingID
			}
			d = append(d, encodeInt5(off(opEncoding, encOff))...)
			d = append(d, opEncoding)
		}
		if !r.noCS {
			d = append(d, encodeInt5(off(opCharStrings, csOff))...)
			d = append(d, opCharStrings)
		}
		if !r.noPrivate {
			size := len(r.private)
			if r.privSize > 0 {
				size = r.privSize
			}
			d = append(d, encodeInt5(size)...)
			d = append(d, encodeInt5(off(opPrivate, privOff))...)
			d = append(d, opPrivate)
		}
		if r.patchTop != nil {
			r.patchTop(d)
		}
		return d
	}
	topLen := len(buildIndex([][]byte{top(0, 0, 0, 0)}))
	pos := len(header) + len(nameIndex) + topLen + len(stringIndex) + len(gsubrIndex)
	csOff := pos
	pos += len(charStrings)
	privOff := pos
	pos += len(r.private)
	charsetOff := pos
	pos += len(r.charset)
	encOff := pos

	var out []byte
	out = append(out, header...)
	out = append(out, nameIndex...)
	out = append(out, buildIndex([][]byte{top(csOff, privOff, charsetOff, encOff)})...)
	out = append(out, stringIndex...)
	out = append(out, gsubrIndex...)
	out = append(out, charStrings...)
	out = append(out, r.private...)
	out = append(out, r.charset...)
	out = append(out, r.encoding...)
	return out
}

func hasProblem(f *Font, substr string) bool {
	for _, p := range f.Problems {
		if strings.Contains(p, substr) {
			return true
		}
	}
	return false
}

func parseClean(t *testing.T, name string, data []byte) *Font {
	t.Helper()
	f, err := Parse(data)
	if err != nil {
		t.Fatalf("%s: %v", name, err)
	}
	if len(f.Problems) != 0 {
		t.Fatalf("%s: problems: %q", name, f.Problems)
	}
	return f
}

// wantProblem checks that parsing succeeds but reports a problem.
func wantProblem(t *testing.T, name string, data []byte, substr string) *Font {
	t.Helper()
	f, err := Parse(data)
	if err != nil {
		t.Errorf("%s: unexpected error %v", name, err)
		return f
	}
	if !hasProblem(f, substr) {
		t.Errorf("%s: problems %q do not mention %q", name, f.Problems, substr)
	}
	return f
}

// wantError checks that parsing fails.
func wantError(t *testing.T, name string, data []byte) {
	t.Helper()
	f, err := Parse(data)
	if err == nil {
		t.Errorf("%s: expected an error (problems: %q)", name, f.Problems)
		return
	}
	if f == nil || len(f.Problems) == 0 {
		t.Errorf("%s: a failed Parse must still return the font and a problem", name)
	}
}

// ---- charset ----

func TestCharsetFormats(t *testing.T) {
	// predefined
	f := parseClean(t, "default charset", (&rawSpec{nGlyphs: 3}).build())
	if f.Charset != nil || f.CharsetID != 0 {
		t.Errorf("default charset: %v %d", f.Charset, f.CharsetID)
	}
	for id := 1; id <= 2; id++ {
		f := parseClean(t, "predefined charset", (&rawSpec{nGlyphs: 3, charsetID: id}).build())
		if f.Charset != nil || f.CharsetID != id {
			t.Errorf("predefined charset %d: %v %d", id, f.Charset, f.CharsetID)
		}
	}

	strs := [][]byte{[]byte("foo"), []byte("bar")}
	// format 0
	f = parseClean(t, "format 0", (&rawSpec{nGlyphs: 4, strings: strs, charset: []byte{0, 0, 34, 1, 0x87, 0, 1}}).build())
	if f.CharsetFormat != 0 || !reflect.DeepEqual(f.Charset, []int{0, 34, 391, 1}) {
		t.Errorf("format 0: %v", f.Charset)
	}
	if f.SIDString(f.Charset[2]) != "foo" {
		t.Errorf("format 0: name %q", f.SIDString(f.Charset[2]))
	}
	// format 1: A B C, then foo bar
	f = parseClean(t, "format 1", (&rawSpec{nGlyphs: 6, strings: strs, charset: []byte{1, 0, 34, 2, 1, 0x87, 1}}).build())
	if f.CharsetFormat != 1 || !reflect.DeepEqual(f.Charset, []int{0, 34, 35, 36, 391, 392}) {
		t.Errorf("format 1: %v", f.Charset)
	}
	// format 2
	f = parseClean(t, "format 2", (&rawSpec{nGlyphs: 6, charset: []byte{2, 0, 100, 0, 4}}).build())
	if f.CharsetFormat != 2 || !reflect.DeepEqual(f.Charset, []int{0, 100, 101, 102, 103, 104}) {
		t.Errorf("format 2: %v", f.Charset)
	}
	// format 2 with a long range
	f = parseClean(t, "format 2 long", (&rawSpec{nGlyphs: 1001, charset: []byte{2, 0, 1, 0x03, 0xe7}}).build())
	if len(f.Charset) != 1001 || f.Charset[1000] != 1000 {
		t.Errorf("format 2 long: %d entries", len(f.Charset))
	}
	// a single glyph needs no charset data beyond the format byte
	f = parseClean(t, "one glyph", (&rawSpec{nGlyphs: 1, charset: []byte{0}}).build())
	if !reflect.DeepEqual(f.Charset, []int{0}) {
		t.Errorf("one glyph: %v", f.Charset)
	}

	// problems
	f = wantProblem(t, "format 1 overshoot", (&rawSpec{nGlyphs: 3, charset: []byte{1, 0, 34, 5}}).build(), "covers more glyphs")
	if !reflect.DeepEqual(f.Charset, []int{0, 34, 35}) {
		t.Errorf("format 1 overshoot: %v", f.Charset)
	}
	wantProblem(t, "format 2 overshoot", (&rawSpec{nGlyphs: 3, charset: []byte{2, 0, 34, 0, 2}}).build(), "covers more glyphs")
	wantProblem(t, "unknown format", (&rawSpec{nGlyphs: 3, charset: []byte{3, 0, 34, 0, 2}}).build(), "unknown format")
	f = wantProblem(t, "format 0 truncated", (&rawSpec{nGlyphs: 4, charset: []byte{0, 0, 34, 0, 35}}).build(), "runs past the end")
	if !hasProblem(f, "charset covers 3 glyphs, but CharStrings has 4") {
		t.Errorf("format 0 truncated: %q", f.Problems)
	}
	wantProblem(t, "format 0 truncated mid-SID", (&rawSpec{nGlyphs: 3, charset: []byte{0, 0, 34, 0}}).build(), "runs past the end")
	f = wantProblem(t, "format 1 truncated", (&rawSpec{nGlyphs: 4, charset: []byte{1, 0, 34, 0, 0, 35}}).build(), "runs past the end")
	if !hasProblem(f, "charset covers 2 glyphs") {
		t.Errorf("format 1 truncated: %q", f.Problems)
	}
	wantProblem(t, "format 2 truncated", (&rawSpec{nGlyphs: 4, charset: []byte{2, 0, 34, 0}}).build(), "runs past the end")
	wantProblem(t, "format 1 sid overflow", (&rawSpec{nGlyphs: 4, charset: []byte{1, 0xff, 0xff, 2}}).build(), "exceeds 65535")

	// offsets
	r := &rawSpec{nGlyphs: 2, charset: []byte{0, 0, 34}}
	n := len(r.build())
	r.override = map[int]int{opCharset: n}
	wantProblem(t, "charset at end of data", r.build(), "past the end")
	r.override = map[int]int{opCharset: n + 1000}
	wantProblem(t, "charset far past end of data", r.build(), "past the end")
	r.override = map[int]int{opCharset: 3}
	wantProblem(t, "charset in header", r.build(), "overlaps the header")
	r.override = map[int]int{opCharset: 6}
	wantProblem(t, "charset in Name INDEX", r.build(), "overlaps the INDEXes")
}

// ---- Encoding ----

func TestEncodingFormats(t *testing.T) {
	charset := []byte{0, 0, 34, 0, 35, 0, 36, 0, 37, 0, 38} // A B C D E
	f := parseClean(t, "default", (&rawSpec{nGlyphs: 6, charset: charset}).build())
	if f.Encoding != nil || f.EncodingID != 0 {
		t.Errorf("default: %v %d", f.Encoding, f.EncodingID)
	}
	f = parseClean(t, "expert", (&rawSpec{nGlyphs: 6, charset: charset, encodingID: 1}).build())
	if f.Encoding != nil || f.EncodingID != 1 {
		t.Errorf("expert: %v %d", f.Encoding, f.EncodingID)
	}

	f = parseClean(t, "format 0", (&rawSpec{nGlyphs: 6, charset: charset, encoding: []byte{0, 3, 65, 66, 200}}).build())
	if f.EncodingFormat != 0 || f.EncodingID <= 1 || !reflect.DeepEqual(f.Encoding, map[int]int{65: 1, 66: 2, 200: 3}) {
		t.Errorf("format 0: %v", f.Encoding)
	}
	f = parseClean(t, "format 1", (&rawSpec{nGlyphs: 6, charset: charset, encoding: []byte{1, 2, 65, 2, 97, 1}}).build())
	if f.EncodingFormat != 1 || !reflect.DeepEqual(f.Encoding, map[int]int{65: 1, 66: 2, 67: 3, 97: 4, 98: 5}) {
		t.Errorf("format 1: %v", f.Encoding)
	}
	// supplements: code 200 and 201 -> SID 35 (glyph 2), code 7 -> SID 38 (glyph 5)
	f = parseClean(t, "format 0 + supplement", (&rawSpec{nGlyphs: 6, charset: charset,
		encoding: []byte{0x80, 2, 65, 66, 3, 200, 0, 35, 201, 0, 35, 7, 0, 38}}).build())
	if f.EncodingFormat != 0 || !reflect.DeepEqual(f.Encoding, map[int]int{65: 1, 66: 2, 200: 2, 201: 2, 7: 5}) {
		t.Errorf("format 0 + supplement: %v", f.Encoding)
	}
	f = parseClean(t, "format 1 + supplement", (&rawSpec{nGlyphs: 6, charset: charset,
		encoding: []byte{0x81, 1, 65, 1, 1, 9, 0, 36}}).build())
	if f.EncodingFormat != 1 || !reflect.DeepEqual(f.Encoding, map[int]int{65: 1, 66: 2, 9: 3}) {
		t.Errorf("format 1 + supplement: %v", f.Encoding)
	}
	f = parseClean(t, "empty encoding", (&rawSpec{nGlyphs: 6, charset: charset, encoding: []byte{0, 0}}).build())
	if f.Encoding == nil || len(f.Encoding) != 0 {
		t.Errorf("empty encoding: %v", f.Encoding)
	}

	wantProblem(t, "unknown format", (&rawSpec{nGlyphs: 6, charset: charset, encoding: []byte{2, 0}}).build(), "unknown format")
	wantProblem(t, "too many codes", (&rawSpec{nGlyphs: 3, charset: charset[:5], encoding: []byte{0, 3, 65, 66, 67}}).build(), "CharStrings has 3 glyphs")
	wantProblem(t, "too many codes in range", (&rawSpec{nGlyphs: 3, charset: charset[:5], encoding: []byte{1, 1, 65, 2}}).build(), "CharStrings has 3 glyphs")
	wantProblem(t, "duplicate code", (&rawSpec{nGlyphs: 6, charset: charset, encoding: []byte{0, 2, 65, 65}}).build(), "more than once")
	wantProblem(t, "range past 255", (&rawSpec{nGlyphs: 6, charset: charset, encoding: []byte{1, 1, 254, 2}}).build(), "exceeds 255")
	wantProblem(t, "supplement unknown SID", (&rawSpec{nGlyphs: 6, charset: charset, encoding: []byte{0x80, 0, 1, 65, 0, 99}}).build(), "not in the charset")
	wantProblem(t, "format 0 truncated", (&rawSpec{nGlyphs: 6, charset: charset, encoding: []byte{0, 3, 65, 66}}).build(), "runs past the end")
	wantProblem(t, "format 0 no count", (&rawSpec{nGlyphs: 6, charset: charset, encoding: []byte{0}}).build(), "runs past the end")
	wantProblem(t, "format 1 truncated", (&rawSpec{nGlyphs: 6, charset: charset, encoding: []byte{1, 2, 65, 1, 70}}).build(), "runs past the end")
	wantProblem(t, "supplement truncated", (&rawSpec{nGlyphs: 6, charset: charset, encoding: []byte{0x80, 1, 65, 1, 66, 0}}).build(), "runs past the end")
	wantProblem(t, "supplement missing", (&rawSpec{nGlyphs: 6, charset: charset, encoding: []byte{0x80, 1, 65}}).build(), "runs past the end")

	r := &rawSpec{nGlyphs: 6, charset: charset, encoding: []byte{0, 0}}
	r.override = map[int]int{opEncoding: len(r.build())}
	wantProblem(t, "encoding at end of data", r.build(), "past the end")
	r.override = map[int]int{opEncoding: 2}
	wantProblem(t, "encoding in header", r.build(), "overlaps the header")
}

// ---- INDEX structure ----

func TestIndexProblems(t *testing.T) {
	ec := []byte{14, 14, 14} // three times "endchar"

	parseClean(t, "good", (&rawSpec{charStrings: rawIndex(1, []int{1, 2, 3, 4}, ec)}).build())
	f := parseClean(t, "empty objects", (&rawSpec{charStrings: rawIndex(1, []int{1, 1, 2, 2}, []byte{14})}).build())
	if len(f.CharStrings) != 3 || len(f.CharStrings[0]) != 0 || len(f.CharStrings[1]) != 1 || len(f.CharStrings[2]) != 0 {
		t.Errorf("empty objects: %v", f.CharStrings)
	}

	for _, offSize := range []int{2, 3, 4} {
		offs := []int{1, 2, 3, 4}
		f := wantProblem(t, "non-minimal", (&rawSpec{charStrings: rawIndex(offSize, offs, ec)}).build(), "non-minimal offSize")
		if len(f.Problems) != 1 || !strings.HasPrefix(f.Problems[0], "non-minimal offSize") {
			t.Errorf("non-minimal offSize %d: %q", offSize, f.Problems)
		}
		if len(f.CharStrings) != 3 {
			t.Errorf("non-minimal offSize %d: %d glyphs", offSize, len(f.CharStrings))
		}
	}
	// offSize 2 is minimal as soon as the last offset exceeds 255
	big := make([]byte, 255)
	for i := range big {
		big[i] = 14
	}
	parseClean(t, "offSize 2 needed", (&rawSpec{charStrings: rawIndex(2, []int{1, 256}, big)}).build())
	wantProblem(t, "offSize 2 not needed", (&rawSpec{charStrings: rawIndex(2, []int{1, 255}, big[:254])}).build(), "non-minimal offSize")
	wantProblem(t, "offSize 3 not needed", (&rawSpec{charStrings: rawIndex(3, []int{1, 256}, big)}).build(), "non-minimal offSize")

	wantProblem(t, "first offset 2", (&rawSpec{charStrings: rawIndex(1, []int{2, 3, 4, 5}, append([]byte{0}, ec...))}).build(), "first offset is 2")
	wantProblem(t, "first offset 0", (&rawSpec{charStrings: rawIndex(1, []int{0, 2, 3, 4}, ec)}).build(), "first offset is 0")
	f = wantProblem(t, "not monotone", (&rawSpec{charStrings: rawIndex(1, []int{1, 3, 2, 4}, ec)}).build(), "not monotone")
	if len(f.CharStrings) != 3 || f.CharStrings[0] == nil || f.CharStrings[1] != nil || f.CharStrings[2] == nil {
		t.Errorf("not monotone: %v", f.CharStrings)
	}

	wantError(t, "offSize 0", (&rawSpec{charStrings: rawIndex(0, []int{1, 2}, ec)}).build())
	f, _ = Parse((&rawSpec{charStrings: rawIndex(5, []int{1, 2, 3, 4}, ec)}).build())
	if !hasProblem(f, "offSize 5 not in 1..4") {
		t.Errorf("offSize 5: %q", f.Problems)
	}
	wantError(t, "offSize 5", (&rawSpec{charStrings: rawIndex(5, []int{1, 2, 3, 4}, ec)}).build())

	// the CharStrings INDEX is followed by nothing: its data runs past the end
	wantError(t, "data past the end", (&rawSpec{noPrivate: true, charStrings: rawIndex(1, []int{1, 2, 3, 9}, ec)}).build())
	wantError(t, "last offset 0", (&rawSpec{charStrings: rawIndex(1, []int{1, 0}, ec)}).build())
	wantError(t, "offset array past the end", (&rawSpec{noPrivate: true, charStrings: []byte{0, 9, 1, 1, 2}}).build())
	wantError(t, "count past the end", (&rawSpec{noPrivate: true, charStrings: []byte{0}}).build())
	wantError(t, "offSize past the end", (&rawSpec{noPrivate: true, charStrings: []byte{0, 1}}).build())

	// problems in the leading INDEXes
	wantProblem(t, "two names", (&rawSpec{nGlyphs: 1, nameIndex: buildIndex([][]byte{[]byte("A"), []byte("B")})}).build(), "Name INDEX has 2 entries")
	wantError(t, "no names", (&rawSpec{nGlyphs: 1, nameIndex: buildIndex(nil)}).build())
	wantProblem(t, "non-minimal name INDEX", (&rawSpec{nGlyphs: 1, nameIndex: rawIndex(2, []int{1, 4}, []byte("Raw"))}).build(), "non-minimal offSize: Name INDEX")
	wantError(t, "name INDEX offSize 0", (&rawSpec{nGlyphs: 1, nameIndex: rawIndex(0, []int{1, 4}, []byte("Raw"))}).build())

	// empty CharStrings INDEX
	wantProblem(t, "no glyphs", (&rawSpec{charStrings: buildIndex(nil)}).build(), "CharStrings INDEX is empty")
}

// ---- header, Top DICT, Private DICT ----

func TestHeaderAndDicts(t *testing.T) {
	parseClean(t, "good", (&rawSpec{nGlyphs: 2}).build())
	parseClean(t, "long header", (&rawSpec{nGlyphs: 2, header: []byte{1, 0, 6, 2, 0xaa, 0xbb}}).build())
	parseClean(t, "minor version", (&rawSpec{nGlyphs: 2, header: []byte{1, 7, 4, 4}}).build())

	wantProblem(t, "header offSize 0", (&rawSpec{nGlyphs: 2, header: []byte{1, 0, 4, 0}}).build(), "header: offSize 0")
	wantProblem(t, "header offSize 5", (&rawSpec{nGlyphs: 2, header: []byte{1, 0, 4, 5}}).build(), "header: offSize 5")
	wantError(t, "major version 2", (&rawSpec{nGlyphs: 2, header: []byte{2, 0, 4, 1}}).build())
	wantError(t, "major version 0", (&rawSpec{nGlyphs: 2, header: []byte{0, 0, 4, 1}}).build())
	wantError(t, "hdrSize 3", (&rawSpec{nGlyphs: 2, header: []byte{1, 0, 3, 1}}).build())
	wantError(t, "hdrSize past the end", []byte{1, 0, 200, 1, 0, 0})
	for n := 0; n < 4; n++ {
		wantError(t, "short data", []byte{1, 0, 4, 1}[:n])
	}
	wantError(t, "header only", []byte{1, 0, 4, 1})

	wantError(t, "no CharStrings", (&rawSpec{nGlyphs: 2, noCS: true}).build())
	r := &rawSpec{nGlyphs: 2}
	r.override = map[int]int{opCharStrings: len(r.build()) + 10}
	wantError(t, "CharStrings past the end", r.build())
	f, _ := Parse((&rawSpec{nGlyphs: 2, override: map[int]int{opCharStrings: 4}}).build())
	if !hasProblem(f, "CharStrings INDEX at offset 4 overlaps the INDEXes") {
		t.Errorf("CharStrings on top of the Name INDEX: %q", f.Problems)
	}

	f = wantProblem(t, "no Private", (&rawSpec{nGlyphs: 2, noPrivate: true}).build(), "no Private operator")
	if len(f.Privates) != 1 || f.Privates[0] == nil || f.Privates[0].LocalSubrs != nil {
		t.Errorf("no Private: %v", f.Privates)
	}
	r = &rawSpec{nGlyphs: 2, private: []byte{0x8b, opDefaultWidthX}}
	r.override = map[int]int{opPrivate: len(r.build()) - 1}
	wantProblem(t, "Private past the end", r.build(), "Private DICT runs past the end")
	r.override = map[int]int{opPrivate: 1}
	wantProblem(t, "Private in header", r.build(), "overlaps the header")

	wantProblem(t, "CharstringType 1", (&rawSpec{nGlyphs: 2, topExtra: []byte{0x8c, 12, 6}}).build(), "CharstringType")
	parseClean(t, "CharstringType 2", (&rawSpec{nGlyphs: 2, topExtra: []byte{0x8d, 12, 6}}).build())
	wantProblem(t, "fractional offset", (&rawSpec{nGlyphs: 2, topExtra: []byte{30, 0x1a, 0x5f, opCharset}}).build(), "not a valid offset")
	wantProblem(t, "negative offset", (&rawSpec{nGlyphs: 2, topExtra: []byte{0x8a, opEncoding}}).build(), "not a valid offset")
	wantProblem(t, "broken Top DICT", (&rawSpec{nGlyphs: 2, patchTop: func(d []byte) { d[len(d)-1] = 0x8b }}).build(), "without operator")

	// Private DICT contents
	f = parseClean(t, "Private widths", (&rawSpec{nGlyphs: 2, private: []byte{
		0xef, opDefaultWidthX, 30, 0xe2, 0xa2, 0x5f, opNominalWidthX, 0x8c, 0x8d, 6}}).build())
	p := f.Privates[0]
	if p.DefaultWidthX != 100 || p.NominalWidthX != -2.25 || p.LocalSubrs != nil || !reflect.DeepEqual(p.Dict[6], []float64{1, 2}) {
		t.Errorf("Private widths: %+v", p)
	}
	f = parseClean(t, "Private defaults", (&rawSpec{nGlyphs: 2, private: []byte{0x8c, 0x8d, 6}}).build())
	if p := f.Privates[0]; p.DefaultWidthX != 0 || p.NominalWidthX != 0 {
		t.Errorf("Private defaults: %+v", p)
	}
	// Subrs offset is relative to the Private DICT: DICT is 2 bytes, INDEX follows
	subrs := buildIndex([][]byte{{11}, {1, 11}})
	f = parseClean(t, "local subrs", (&rawSpec{nGlyphs: 2, privSize: 2, private: append([]byte{0x8d, opSubrs}, subrs...)}).build())
	if got := f.Privates[0].LocalSubrs; len(got) != 2 || len(got[0]) != 1 || len(got[1]) != 2 {
		t.Errorf("local subrs: %v", got)
	}
	// the local subrs need not follow the Private DICT directly
	f = parseClean(t, "local subrs with gap", (&rawSpec{nGlyphs: 2, charset: append([]byte{0, 0, 1, 0xff, 0xff, 0xff}, subrs...),
		private: []byte{0x8b + 2 + 6, opSubrs}}).build())
	if got := f.Privates[0].LocalSubrs; len(got) != 2 {
		t.Errorf("local subrs with gap: %v", got)
	}
	f = parseClean(t, "empty local subrs", (&rawSpec{nGlyphs: 2, privSize: 2, private: []byte{0x8d, opSubrs, 0, 0}}).build())
	if got := f.Privates[0].LocalSubrs; got == nil || len(got) != 0 {
		t.Errorf("empty local subrs: %v", got)
	}
	wantProblem(t, "local subrs past the end", (&rawSpec{nGlyphs: 2, private: []byte{0xef, opSubrs}}).build(), "Local Subr INDEX")
	wantProblem(t, "local subrs non-minimal", (&rawSpec{nGlyphs: 2, privSize: 2, private: append([]byte{0x8d, opSubrs}, rawIndex(2, []int{1, 2}, []byte{11})...)}).build(),
		"non-minimal offSize: Top DICT: Local Subr INDEX")
	wantProblem(t, "two widths", (&rawSpec{nGlyphs: 2, private: []byte{0x8c, 0x8d, opDefaultWidthX}}).build(), "defaultWidthX has 2 operands")
	wantProblem(t, "Private 1 operand", (&rawSpec{nGlyphs: 2, noPrivate: true, topExtra: []byte{0x8b, opPrivate}}).build(), "Private has 1 operands")
}

// ---- CID-keyed fonts ----

func cid10() *AsmSpec {
	spec := &AsmSpec{
		Name: "CID10",
		CID:  true,
		Privates: []AsmPrivate{
			{DefaultWidthX: 100},
			{DefaultWidthX: 200},
		},
	}
	for g := 0; g < 10; g++ {
		spec.CharStrings = append(spec.CharStrings, []byte{14})
		spec.FDSelect = append(spec.FDSelect, 0)
	}
	return spec
}

// withFDSelect replaces the FDSelect of the cid10 font (11 bytes) by other
// data of the same length.
func withFDSelect(t *testing.T, sel []byte) []byte {
	t.Helper()
	if len(sel) != 11 {
		t.Fatalf("FDSelect replacement has %d bytes, want 11", len(sel))
	}
	data := Assemble(cid10())
	f := parseClean(t, "cid10", data)
	off := int(f.Top[opFDSelect][0])
	copy(data[off:], sel)
	return data
}

func TestFDSelect(t *testing.T) {
	f := parseClean(t, "format 0", withFDSelect(t, []byte{0, 0, 1, 0, 1, 1, 1, 0, 0, 0, 1}))
	if f.FDSelectFormat != 0 || !reflect.DeepEqual(f.FDSelect, []int{0, 1, 0, 1, 1, 1, 0, 0, 0, 1}) {
		t.Errorf("format 0: %v", f.FDSelect)
	}
	// format 3: two ranges [0,4) -> 1, [4,10) -> 0
	f = parseClean(t, "format 3", withFDSelect(t, []byte{3, 0, 2, 0, 0, 1, 0, 4, 0, 0, 10}))
	if f.FDSelectFormat != 3 || !reflect.DeepEqual(f.FDSelect, []int{1, 1, 1, 1, 0, 0, 0, 0, 0, 0}) {
		t.Errorf("format 3: %v", f.FDSelect)
	}
	if len(f.FDArray) != 2 || len(f.Privates) != 2 || f.Privates[0].DefaultWidthX != 100 || f.Privates[1].DefaultWidthX != 200 {
		t.Errorf("format 3: privates wrong")
	}

	wantProblem(t, "format 0 bad fd", withFDSelect(t, []byte{0, 0, 1, 0, 2, 1, 1, 0, 0, 0, 1}), "uses font DICT 2")
	wantProblem(t, "format 3 first != 0", withFDSelect(t, []byte{3, 0, 2, 0, 1, 1, 0, 4, 0, 0, 10}), "first range starts at 1")
	wantProblem(t, "format 3 not increasing", withFDSelect(t, []byte{3, 0, 2, 0, 0, 1, 0, 0, 0, 0, 10}), "not followed by a larger glyph index")
	wantProblem(t, "format 3 decreasing", withFDSelect(t, []byte{3, 0, 2, 0, 5, 1, 0, 4, 0, 0, 10}), "not followed by a larger glyph index")
	wantProblem(t, "format 3 sentinel small", withFDSelect(t, []byte{3, 0, 2, 0, 0, 1, 0, 4, 0, 0, 9}), "sentinel is 9")
	wantProblem(t, "format 3 sentinel large", withFDSelect(t, []byte{3, 0, 2, 0, 0, 1, 0, 4, 0, 0, 11}), "sentinel is 11")
	wantProblem(t, "format 3 bad fd", withFDSelect(t, []byte{3, 0, 2, 0, 0, 1, 0, 4, 7, 0, 10}), "uses font DICT 7")
	wantProblem(t, "format 3 no ranges", withFDSelect(t, []byte{3, 0, 0, 0, 10, 0, 0, 0, 0, 0, 0}), "no ranges")
	wantProblem(t, "unknown format", withFDSelect(t, []byte{1, 0, 2, 0, 0, 1, 0, 4, 0, 0, 10}), "unknown format")

	// FDSelect running past the data: point it at the last bytes of the font
	data := Assemble(cid10())
	f = parseClean(t, "cid10", data)
	patchOffset := func(data []byte, old, new int) {
		// offsets in the Top DICT are five byte integers
		pat := encodeInt5(old)
		top := data[:int(f.Top[opCharset][0])]
		for i := 0; i+5 <= len(top); i++ {
			if string(top[i:i+5]) == string(pat) {
				copy(top[i:], encodeInt5(new))
				return
			}
		}
		t.Fatal("offset not found")
	}
	bad := append(append([]byte{}, data...), 0, 1, 1) // format 0, but only two of the ten entries
	patchOffset(bad, int(f.Top[opFDSelect][0]), len(data))
	g := wantProblem(t, "FDSelect truncated", bad, "FDSelect runs past the end")
	if !hasProblem(g, "FDSelect covers 2 glyphs, but CharStrings has 10") {
		t.Errorf("FDSelect truncated: %q", g.Problems)
	}
	bad = append(append([]byte{}, data...), 3, 0, 2, 0, 0, 1, 0, 4, 0, 0) // format 3 without the second sentinel byte
	patchOffset(bad, int(f.Top[opFDSelect][0]), len(data))
	wantProblem(t, "FDSelect 3 truncated", bad, "FDSelect runs past the end")
	bad = append([]byte{}, data...)
	patchOffset(bad, int(f.Top[opFDSelect][0]), len(data))
	wantProblem(t, "FDSelect at end", bad, "past the end")
	bad = append([]byte{}, data...)
	patchOffset(bad, int(f.Top[opFDSelect][0]), 1)
	wantProblem(t, "FDSelect in header", bad, "overlaps the header")
	bad = append([]byte{}, data...)
	patchOffset(bad, int(f.Top[opFDArray][0]), len(data)+5)
	wantError(t, "FDArray past the end", bad)

	// a simple font has no FDSelect
	f = parseClean(t, "simple", (&rawSpec{nGlyphs: 2}).build())
	if f.IsCID || f.FDSelect != nil || f.FDArray != nil || len(f.Privates) != 1 {
		t.Errorf("simple font: %+v", f)
	}
	// a CID font without FDArray cannot be walked
	wantError(t, "ROS without FDArray", (&rawSpec{nGlyphs: 2, charset: []byte{0, 0, 1}, topExtra: []byte{0x8b, 0x8b, 0x8b, 12, 30}}).build())
}

// ---- robustness ----

func TestTruncation(t *testing.T) {
	for _, spec := range []*AsmSpec{func() *AsmSpec { s, _ := simpleSpec(); return s }(), func() *AsmSpec { s, _ := cidSpec(); return s }()} {
		data := Assemble(spec)
		for n := 0; n < len(data); n++ {
			f, err := Parse(data[:n])
			if f == nil {
				t.Fatalf("%s: truncated to %d: nil font", spec.Name, n)
			}
			if err == nil && len(f.Problems) == 0 {
				t.Errorf("%s: truncated to %d of %d bytes: no error and no problem", spec.Name, n, len(data))
			}
		}
	}
}

func TestMutation(t *testing.T) {
	// Parse must never panic, whatever the data.
	for _, spec := range []*AsmSpec{func() *AsmSpec { s, _ := simpleSpec(); return s }(), func() *AsmSpec { s, _ := cidSpec(); return s }()} {
		data := Assemble(spec)
		for i := range data {
			orig := data[i]
			for _, v := range []byte{0, 1, 2, 3, 4, 5, 0x7f, 0x80, 0xff, orig + 1, orig - 1, orig ^ 0x80} {
				data[i] = v
				f, _ := Parse(data)
				if f == nil {
					t.Fatalf("nil font")
				}
			}
			data[i] = orig
		}
	}
}
