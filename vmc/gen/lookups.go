package gen

import (
	"fmt"
	"seehuhn.de/go/postscript/funit"

	"seehuhn.de/go/sfnt/glyph"
	"seehuhn.de/go/sfnt/opentype/anchor"
	"seehuhn.de/go/sfnt/opentype/classdef"
	"seehuhn.de/go/sfnt/opentype/coverage"
	"seehuhn.de/go/sfnt/opentype/gdef"
	"seehuhn.de/go/sfnt/opentype/gtab"
	"seehuhn.de/go/sfnt/opentype/markarray"

	"verif/explore"
)

// The glyph universe of the lookup generator.
const (
	GA glyph.ID = 1 + iota // base
	GB                     // base
	GC                     // base (unclassified in GDEF)
	GL                     // ligature
	GM                     // mark, attach class 1, in mark set 0
	GN                     // mark, attach class 2
	GX                     // output
	GY                     // output
)

// GlyphNames names the universe (index = glyph id).
var GlyphNames = []string{".notdef", "A", "B", "C", "L", "M", "N", "X", "Y"}

// SeqName renders a glyph sequence.
func SeqName(gids []glyph.ID) string {
	s := ""
	for _, g := range gids {
		if int(g) < len(GlyphNames) {
			s += GlyphNames[g]
		} else {
			s += fmt.Sprintf("<%d>", g)
		}
	}
	return s
}

// Gdef returns the k-th GDEF variant.
func Gdef(k int) (*gdef.Table, string) {
	classes := classdef.Table{GA: gdef.GlyphClassBase, GB: gdef.GlyphClassBase, GL: gdef.GlyphClassLigature, GM: gdef.GlyphClassMark, GN: gdef.GlyphClassMark, GX: gdef.GlyphClassBase}
	switch k {
	case 0:
		return &gdef.Table{GlyphClass: classes, MarkAttachClass: classdef.Table{GM: 1, GN: 2}, MarkGlyphSets: []coverage.Set{{GM: true}, {GN: true}}}, "classes+attach+marksets"
	case 1:
		return &gdef.Table{GlyphClass: classes}, "classes"
	case 2:
		return nil, "none"
	case 4:
		// glyph classes outside the defined range 1..4 (the reader delivers any 16-bit value)
		return &gdef.Table{GlyphClass: classdef.Table{GA: 5, GB: 0xFFFF, GL: gdef.GlyphClassLigature, GM: gdef.GlyphClassMark, GN: 6}}, "undefined classes"
	default:
		return &gdef.Table{GlyphClass: classes, MarkAttachClass: classdef.Table{GM: 1, GN: 2}}, "classes+attach"
	}
}

// FlagSet is a lookup-flag combination.
type FlagSet struct {
	Flags gtab.LookupFlags
	Set   uint16
	Name  string
}

// Flags is the flag menu.
var Flags = []FlagSet{
	{0, 0, ""},
	{gtab.IgnoreMarks, 0, "-marks"},
	{gtab.IgnoreLigatures, 0, "-ligs"},
	{gtab.IgnoreBaseGlyphs, 0, "-base"},
	{gtab.UseMarkFilteringSet, 0, "markset0"},
	{gtab.UseMarkFilteringSet, 1, "markset1"},
	{1 << 8, 0, "attach1"},
	{2 << 8, 0, "attach2"},
	{gtab.IgnoreMarks | gtab.IgnoreLigatures, 0, "-marks-ligs"},
	{gtab.UseMarkFilteringSet | 2<<8, 0, "markset0+attach2"},
	{gtab.IgnoreLigatures | 1<<8, 0, "-ligs+attach1"},
}

// Simple is a non-contextual lookup of the menu.
type Simple struct {
	Name string
	Type uint16
	Sub  func() []gtab.Subtable
}

func cov(g ...glyph.ID) coverage.Table {
	t := coverage.Table{}
	// coverage indices follow glyph order
	for i := 1; i < len(g); i++ {
		for j := i; j > 0 && g[j] < g[j-1]; j-- {
			g[j], g[j-1] = g[j-1], g[j]
		}
	}
	for i, x := range g {
		t[x] = i
	}
	return t
}

// GsubSimple is the menu of simple GSUB lookups (awkward instances included).
var GsubSimple = []Simple{
	{"GSUB1.1 A->B", 1, func() []gtab.Subtable { return []gtab.Subtable{&gtab.Gsub1_1{Cov: coverage.Set{GA: true}, Delta: 1}} }},
	{"GSUB1.2 A->X M->N B->Y", 1, func() []gtab.Subtable {
		return []gtab.Subtable{&gtab.Gsub1_2{Cov: cov(GA, GB, GM), SubstituteGlyphIDs: []glyph.ID{GX, GY, GN}}}
	}},
	{"GSUB2 A->AM B->XYA", 2, func() []gtab.Subtable {
		return []gtab.Subtable{&gtab.Gsub2_1{Cov: cov(GA, GB), Repl: [][]glyph.ID{{GA, GM}, {GX, GY, GA}}}}
	}},
	{"GSUB2 A->AA", 2, func() []gtab.Subtable {
		return []gtab.Subtable{&gtab.Gsub2_1{Cov: cov(GA), Repl: [][]glyph.ID{{GA, GA}}}}
	}},
	{"GSUB3 A->[XY]", 3, func() []gtab.Subtable {
		return []gtab.Subtable{&gtab.Gsub3_1{Cov: cov(GA), Alternates: [][]glyph.ID{{GX, GY}}}}
	}},
	{"GSUB4 AAA->X AA->Y AB->L", 4, func() []gtab.Subtable {
		return []gtab.Subtable{&gtab.Gsub4_1{Cov: cov(GA), Repl: [][]gtab.Ligature{{{In: []glyph.ID{GA, GA}, Out: GX}, {In: []glyph.ID{GA}, Out: GY}, {In: []glyph.ID{GB}, Out: GL}}}}}
	}},
	{"GSUB4 AB->L BA->X", 4, func() []gtab.Subtable {
		return []gtab.Subtable{&gtab.Gsub4_1{Cov: cov(GA, GB), Repl: [][]gtab.Ligature{{{In: []glyph.ID{GB}, Out: GL}}, {{In: []glyph.ID{GA}, Out: GX}}}}}
	}},
	{"GSUB4 AM->X A->Y", 4, func() []gtab.Subtable {
		return []gtab.Subtable{&gtab.Gsub4_1{Cov: cov(GA), Repl: [][]gtab.Ligature{{{In: []glyph.ID{GM}, Out: GX}, {In: nil, Out: GY}}}}}
	}},
	{"GSUB4 ABA->X AB->Y (two subtables)", 4, func() []gtab.Subtable {
		return []gtab.Subtable{
			&gtab.Gsub4_1{Cov: cov(GA), Repl: [][]gtab.Ligature{{{In: []glyph.ID{GB, GA}, Out: GX}}}},
			&gtab.Gsub4_1{Cov: cov(GA), Repl: [][]gtab.Ligature{{{In: []glyph.ID{GB}, Out: GY}}}},
		}
	}},
	{"GSUB8 B|A|A -> X", 8, func() []gtab.Subtable {
		return []gtab.Subtable{&gtab.Gsub8_1{Input: cov(GA), Backtrack: []coverage.Table{cov(GB)}, Lookahead: []coverage.Table{cov(GA, GL)}, SubstituteGlyphIDs: []glyph.ID{GX}}}
	}},
	{"GSUB1.2 A->M (base becomes mark)", 1, func() []gtab.Subtable {
		return []gtab.Subtable{&gtab.Gsub1_2{Cov: cov(GA), SubstituteGlyphIDs: []glyph.ID{GM}}}
	}},
	{"GSUB3 A->[YXY] B->[A] (alternates not in glyph order, one repeated)", 3, func() []gtab.Subtable {
		return []gtab.Subtable{&gtab.Gsub3_1{Cov: cov(GA, GB), Alternates: [][]glyph.ID{{GY, GX, GY}, {GA}}}}
	}},
	{"GSUB4 AA->B B->C C->L (one-glyph ligatures behind a real one: not a range)", 4, func() []gtab.Subtable {
		return []gtab.Subtable{&gtab.Gsub4_1{Cov: cov(GA, GB, GC), Repl: [][]gtab.Ligature{{{In: []glyph.ID{GA}, Out: GB}}, {{In: nil, Out: GC}}, {{In: nil, Out: GL}}}}}
	}},
	{"GSUB4 AB->Y B->M C->N L->X (three consecutive one-glyph ligatures behind a real one)", 4, func() []gtab.Subtable {
		return []gtab.Subtable{&gtab.Gsub4_1{Cov: cov(GA, GB, GC, GL), Repl: [][]gtab.Ligature{{{In: []glyph.ID{GB}, Out: GY}}, {{In: nil, Out: GM}}, {{In: nil, Out: GN}}, {{In: nil, Out: GX}}}}}
	}},
	{"GSUB1.1 A-C -> B-L (three consecutive glyphs: written as a range)", 1, func() []gtab.Subtable {
		return []gtab.Subtable{&gtab.Gsub1_1{Cov: coverage.Set{GA: true, GB: true, GC: true}, Delta: 1}}
	}},
}

// GposSimple is the menu of simple GPOS lookups.
var GposSimple = []Simple{
	{"GPOS1.1 A,B +(5,7,10)", 1, func() []gtab.Subtable {
		return []gtab.Subtable{&gtab.Gpos1_1{Cov: cov(GA, GB), Adjust: &gtab.GposValueRecord{XPlacement: 5, YPlacement: 7, XAdvance: 10}}}
	}},
	{"GPOS1.2 A:+10 M:(-3,4)", 1, func() []gtab.Subtable {
		return []gtab.Subtable{&gtab.Gpos1_2{Cov: cov(GA, GM), Adjust: []*gtab.GposValueRecord{{XAdvance: 10}, {XPlacement: -3, YPlacement: 4}}}}
	}},
	{"GPOS2.1 AB:-40 BA:(+25|second +3) AA:-7", 2, func() []gtab.Subtable {
		return []gtab.Subtable{gtab.Gpos2_1{
			{Left: GA, Right: GB}: {First: &gtab.GposValueRecord{XAdvance: -40}},
			{Left: GB, Right: GA}: {First: &gtab.GposValueRecord{XAdvance: 25}, Second: &gtab.GposValueRecord{XPlacement: 3}},
			{Left: GA, Right: GA}: {First: &gtab.GposValueRecord{XAdvance: -7}},
		}}
	}},
	{"GPOS2.2 classes", 2, func() []gtab.Subtable {
		return []gtab.Subtable{&gtab.Gpos2_2{
			Cov:    coverage.Set{GA: true, GB: true},
			Class1: classdef.Table{GB: 1},
			Class2: classdef.Table{GA: 1, GL: 1},
			Adjust: [][]*gtab.PairAdjust{
				{{First: &gtab.GposValueRecord{}}, {First: &gtab.GposValueRecord{XAdvance: -11}}},
				{{First: &gtab.GposValueRecord{XAdvance: 7}}, {First: &gtab.GposValueRecord{XAdvance: -30}, Second: &gtab.GposValueRecord{XAdvance: 2}}},
			},
		}}
	}},
	{"GPOS4.1 marks M(0),N(1) on A,B", 4, func() []gtab.Subtable {
		return []gtab.Subtable{&gtab.Gpos4_1{
			MarkCov:   cov(GM, GN),
			BaseCov:   cov(GA, GB),
			MarkArray: []markarray.Record{{Class: 0, Table: anchor.Table{X: 10, Y: 20}}, {Class: 1, Table: anchor.Table{X: -5, Y: 3}}},
			BaseArray: [][]anchor.Table{{{X: 250, Y: 700}, {X: 260, Y: -50}}, {{X: 300, Y: 710}, {}}},
		}}
	}},
	{"GPOS6.1 N on M", 6, func() []gtab.Subtable {
		return []gtab.Subtable{&gtab.Gpos6_1{
			Mark1Cov:   cov(GN),
			Mark2Cov:   cov(GM),
			Mark1Array: []markarray.Record{{Class: 0, Table: anchor.Table{X: 1, Y: 2}}},
			Mark2Array: [][]anchor.Table{{{X: 30, Y: 40}}},
		}}
	}},
	{"GPOS6.1 N (class 1) on M, which has an anchor for class 0 only", 6, func() []gtab.Subtable {
		return []gtab.Subtable{&gtab.Gpos6_1{
			Mark1Cov:   cov(GN),
			Mark2Cov:   cov(GM),
			Mark1Array: []markarray.Record{{Class: 1, Table: anchor.Table{X: 1, Y: 2}}},
			Mark2Array: [][]anchor.Table{{{X: 30, Y: 40}, {}}},
		}}
	}},
	{"GPOS3.1 cursive A,B,M", 3, func() []gtab.Subtable {
		return []gtab.Subtable{&gtab.Gpos3_1{Cov: cov(GA, GB, GM), Records: []gtab.EntryExitRecord{
			{Entry: anchor.Table{X: 10, Y: -20}, Exit: anchor.Table{X: 500, Y: 30}},
			{Entry: anchor.Table{X: 5, Y: 40}, Exit: anchor.Table{X: 480, Y: -10}},
			{Entry: anchor.Table{X: 0, Y: 0}, Exit: anchor.Table{X: -7, Y: 700}}}}}
	}},
	{"GPOS4.1 M on A (one mark class)", 4, func() []gtab.Subtable {
		return []gtab.Subtable{&gtab.Gpos4_1{
			MarkCov:   cov(GM),
			BaseCov:   cov(GA),
			MarkArray: []markarray.Record{{Class: 0, Table: anchor.Table{X: 4, Y: 5}}},
			BaseArray: [][]anchor.Table{{{X: 200, Y: 600}}},
		}}
	}},
	{"GPOS2.2 classes 1 and 3 in use, class 2 without a glyph", 2, func() []gtab.Subtable {
		row := func(a, b, c, d funit.Int16) []*gtab.PairAdjust {
			var out []*gtab.PairAdjust
			for _, v := range []funit.Int16{a, b, c, d} {
				out = append(out, &gtab.PairAdjust{First: &gtab.GposValueRecord{XAdvance: v}})
			}
			return out
		}
		return []gtab.Subtable{&gtab.Gpos2_2{
			Cov:    coverage.Set{GA: true, GB: true, GL: true},
			Class1: classdef.Table{GA: 1, GB: 3},
			Class2: classdef.Table{GA: 3, GM: 1},
			Adjust: [][]*gtab.PairAdjust{row(1, 2, 3, 4), row(5, 6, 7, 8), row(9, 10, 11, 12), row(13, 14, 15, 16)},
		}}
	}},
	{"GPOS2.2 classes, a trailing column and row for classes without a glyph", 2, func() []gtab.Subtable {
		return []gtab.Subtable{&gtab.Gpos2_2{
			Cov:    coverage.Set{GA: true, GB: true},
			Class1: classdef.Table{GB: 1},
			Class2: classdef.Table{GA: 1, GL: 1},
			Adjust: [][]*gtab.PairAdjust{
				{{First: &gtab.GposValueRecord{}}, {First: &gtab.GposValueRecord{XAdvance: -11}}, {First: &gtab.GposValueRecord{XAdvance: 5}}},
				{{First: &gtab.GposValueRecord{XAdvance: 7}}, {First: &gtab.GposValueRecord{XAdvance: -30}}, {First: &gtab.GposValueRecord{XAdvance: 6}}},
				{{First: &gtab.GposValueRecord{XAdvance: 1}}, {First: &gtab.GposValueRecord{XAdvance: 2}}, {First: &gtab.GposValueRecord{XAdvance: 3}}},
			},
		}}
	}},
	{"GPOS2.2 classes, class pairs without any adjustment", 2, func() []gtab.Subtable {
		return []gtab.Subtable{&gtab.Gpos2_2{
			Cov:    coverage.Set{GA: true, GB: true},
			Class1: classdef.Table{GB: 1},
			Class2: classdef.Table{GB: 1, GL: 1},
			Adjust: [][]*gtab.PairAdjust{
				{{}, {First: &gtab.GposValueRecord{XAdvance: -11}}},
				{{First: &gtab.GposValueRecord{XAdvance: 7}}, {}},
			},
		}}
	}},
	{"GPOS4.1 three mark classes of which the last has no mark glyph", 4, func() []gtab.Subtable {
		return []gtab.Subtable{&gtab.Gpos4_1{
			MarkCov:   cov(GM, GN),
			BaseCov:   cov(GA, GB),
			MarkArray: []markarray.Record{{Class: 0, Table: anchor.Table{X: 10, Y: 20}}, {Class: 1, Table: anchor.Table{X: -5, Y: 3}}},
			BaseArray: [][]anchor.Table{{{X: 250, Y: 700}, {X: 260, Y: -50}, {X: 11, Y: 12}}, {{X: 300, Y: 710}, {X: 7, Y: 9}, {X: 13, Y: 14}}},
		}}
	}},
	{"GPOS4.1 three mark classes of which class 1 has no mark glyph", 4, func() []gtab.Subtable {
		return []gtab.Subtable{&gtab.Gpos4_1{
			MarkCov:   cov(GM, GN),
			BaseCov:   cov(GA, GB),
			MarkArray: []markarray.Record{{Class: 0, Table: anchor.Table{X: 10, Y: 20}}, {Class: 2, Table: anchor.Table{X: -5, Y: 3}}},
			BaseArray: [][]anchor.Table{{{X: 250, Y: 700}, {X: 11, Y: 12}, {X: 260, Y: -50}}, {{X: 300, Y: 710}, {X: 13, Y: 14}, {X: 7, Y: 9}}},
		}}
	}},
	{"GPOS6.1 two mark classes of which class 0 has no mark glyph", 6, func() []gtab.Subtable {
		return []gtab.Subtable{&gtab.Gpos6_1{
			Mark1Cov:   cov(GN),
			Mark2Cov:   cov(GM),
			Mark1Array: []markarray.Record{{Class: 1, Table: anchor.Table{X: 1, Y: 2}}},
			Mark2Array: [][]anchor.Table{{{X: 99, Y: 98}, {X: 30, Y: 40}}},
		}}
	}},
}

// MakeLookup assembles a lookup table.
func MakeLookup(typ uint16, f FlagSet, subs []gtab.Subtable) *gtab.LookupTable {
	return &gtab.LookupTable{Meta: &gtab.LookupMetaInfo{LookupType: typ, LookupFlags: f.Flags, MarkFilteringSet: f.Set}, Subtables: subs}
}

// Pattern is an input pattern of a contextual rule.
type Pattern struct {
	Name      string
	Input     []glyph.ID // including the first glyph
	Backtrack []glyph.ID // closest first
	Lookahead []glyph.ID
}

// Patterns is the pattern menu.
var Patterns = []Pattern{
	{"AA", []glyph.ID{GA, GA}, nil, nil},
	{"ABA", []glyph.ID{GA, GB, GA}, nil, nil},
	{"A", []glyph.ID{GA}, nil, nil},
	{"B|AA", []glyph.ID{GA, GA}, []glyph.ID{GB}, nil},
	{"AA|B", []glyph.ID{GA, GA}, nil, []glyph.ID{GB}},
	{"B|AB|A", []glyph.ID{GA, GB}, []glyph.ID{GB}, []glyph.ID{GA}},
	{"AAAA", []glyph.ID{GA, GA, GA, GA}, nil, nil},
}

// ActionSets is the menu of nested action lists: (sequence index, child
// number); child k refers to lookup list index 1+k.
var ActionSets = [][][2]int{
	{{1, 1}, {0, 0}}, // default: child 1 (contextual by default) first, then an action at a lower index
	{{0, 0}, {1, 1}},
	{{2, 1}, {1, 0}, {0, 1}},
	{{0, 0}},
	{{1, 0}},
	{{1, 0}, {0, 1}},
	{{0, 0}, {2, 1}},
	{{1, 0}, {1, 1}},
	{{0, 0}, {1, 1}, {2, 0}},
	{{2, 0}, {0, 1}},
	{{0, 0}, {0, 1}, {3, 0}},
}

func classOf(g glyph.ID) uint16 {
	// context class table: A=1, B=2, L=1, everything else 0
	switch g {
	case GA, GL:
		return 1
	case GB:
		return 2
	}
	return 0
}

// (L shares the class of A: the coverage table of a class-based rule that starts with A is narrower than
// the class of its first glyph, and the rule must not fire at L)
var ctxClasses = classdef.Table{GA: 1, GB: 2, GL: 1}

// Context builds a contextual subtable of the given form (0..2: SeqContext
// format 1..3; 3..5: chained format 1..3).  For the non-chained forms the
// backtrack/lookahead parts of the pattern are dropped.
func Context(form int, p Pattern, actions []gtab.SeqLookup) gtab.Subtable {
	return ContextClasses(form, p, actions, ctxClasses, ctxClasses, ctxClasses)
}

// AltClasses are class tables that differ from the default ones (and from
// each other), for lookups with several class-based subtables.
var AltClasses = [3]classdef.Table{{GB: 1, GA: 2}, {GA: 1, GB: 2, GC: 3}, {GA: 2, GB: 1, GM: 3}}

// ContextClasses is Context with explicit backtrack, input and lookahead class tables for the class-based forms.
func ContextClasses(form int, p Pattern, actions []gtab.SeqLookup, back, input, look classdef.Table) gtab.Subtable {
	cls := func(t classdef.Table, gs []glyph.ID) []uint16 {
		var out []uint16
		for _, g := range gs {
			out = append(out, t[g])
		}
		return out
	}
	numClasses := func(t classdef.Table) int {
		n := 0
		for _, c := range t {
			n = max(n, int(c))
		}
		return n + 1
	}
	sets := func(gs []glyph.ID) []coverage.Set {
		var out []coverage.Set
		for _, g := range gs {
			out = append(out, coverage.Set{g: true})
		}
		return out
	}
	first := p.Input[0]
	switch form {
	case 0:
		return &gtab.SeqContext1{Cov: cov(first), Rules: [][]*gtab.SeqRule{{{Input: p.Input[1:], Actions: actions}}}}
	case 1:
		rules := make([][]*gtab.ClassSeqRule, numClasses(input))
		rules[input[first]] = []*gtab.ClassSeqRule{{Input: cls(input, p.Input[1:]), Actions: actions}}
		return &gtab.SeqContext2{Cov: cov(first), Input: input, Rules: rules}
	case 2:
		return &gtab.SeqContext3{Input: sets(p.Input), Actions: actions}
	case 3:
		return &gtab.ChainedSeqContext1{Cov: cov(first), Rules: [][]*gtab.ChainedSeqRule{{{Backtrack: p.Backtrack, Input: p.Input[1:], Lookahead: p.Lookahead, Actions: actions}}}}
	case 4:
		rules := make([][]*gtab.ChainedClassSeqRule, numClasses(input))
		if input[first] != 0 {
			rules[0] = []*gtab.ChainedClassSeqRule{} // a rule set that is present but holds no rule (as the reader returns it for a count of 0)
		}
		rules[input[first]] = []*gtab.ChainedClassSeqRule{{Backtrack: cls(back, p.Backtrack), Input: cls(input, p.Input[1:]), Lookahead: cls(look, p.Lookahead), Actions: actions}}
		return &gtab.ChainedSeqContext2{Cov: cov(first), Backtrack: back, Input: input, Lookahead: look, Rules: rules}
	default:
		return &gtab.ChainedSeqContext3{Backtrack: sets(p.Backtrack), Input: sets(p.Input), Lookahead: sets(p.Lookahead), Actions: actions}
	}
}

// ContextForms names the six contextual forms.
var ContextForms = []string{"context fmt1", "context fmt2", "context fmt3", "chained fmt1", "chained fmt2", "chained fmt3"}

// NestedSpec describes a generated nested lookup list.
type NestedSpec struct {
	Sig     string // parent form + child 0 (witness class)
	Desc    []string
	Gdef    string
	Applied []gtab.LookupIndex
}

// Nested assembles a lookup list [parent, child0, child1, grandchild, extra]
// from deviation points.  The defaults form a deliberately rich case (a
// ligature child with two candidates under a context rule with a later
// action, marks skipped by the child only); every dimension deviates to its
// alternatives.  gpos selects the GPOS flavour (type 7/8 parents, GPOS children).
func Nested(c *explore.Ctx, gpos bool) (gtab.LookupList, *gdef.Table, *NestedSpec) {
	menu := GsubSimple
	ctxType, chainType := uint16(5), uint16(6)
	if gpos {
		menu = GposSimple
		ctxType, chainType = 7, 8
	}
	spec := &NestedSpec{}
	form := c.Deviate(len(ContextForms), "parent form")
	pat := Patterns[c.Deviate(len(Patterns), "pattern")]
	pflag := Flags[c.Deviate(5, "parent flags")]
	acts := ActionSets[c.Deviate(len(ActionSets), "actions")]
	d0 := 5
	if gpos {
		d0 = 0
	}
	child0 := menu[(d0+c.Deviate(len(menu), "child 0"))%len(menu)]
	f0 := Flags[(1+c.Deviate(4, "child 0 flags"))%4]
	nestedChild1 := c.Deviate(2, "child 1 is a simple lookup") == 0
	child1 := menu[c.Deviate(len(menu), "child 1")]
	f1 := Flags[c.Deviate(3, "child 1 flags")]
	extra := c.Deviate(len(menu)+1, "second top-level lookup")
	gd, gdName := Gdef(c.Deviate(4, "gdef"))
	spec.Gdef = gdName

	var actions []gtab.SeqLookup
	for _, a := range acts {
		actions = append(actions, gtab.SeqLookup{SequenceIndex: uint16(a[0]), LookupListIndex: gtab.LookupIndex(1 + a[1])})
	}
	ptype := ctxType
	if form >= 3 {
		ptype = chainType
	}
	ll := gtab.LookupList{MakeLookup(ptype, pflag, []gtab.Subtable{Context(form, pat, actions)})}
	spec.Desc = append(spec.Desc, fmt.Sprintf("0: %s %s [%s] actions %v", ContextForms[form], pflag.Name, pat.Name, acts))
	ll = append(ll, MakeLookup(child0.Type, f0, child0.Sub()))
	spec.Desc = append(spec.Desc, fmt.Sprintf("1: %s %s", child0.Name, f0.Name))
	if nestedChild1 {
		// child 1 is a context rule "A ..." running the grandchild (lookup 3) at index 0 then 1
		inner := []gtab.SeqLookup{{SequenceIndex: 0, LookupListIndex: 3}, {SequenceIndex: 1, LookupListIndex: 3}}
		ll = append(ll, MakeLookup(ctxType, f1, []gtab.Subtable{Context(2, Pattern{Input: []glyph.ID{GA, GA}}, inner)}))
		spec.Desc = append(spec.Desc, fmt.Sprintf("2: context fmt3 %s [AA] actions 3@0 3@1", f1.Name))
	} else {
		ll = append(ll, MakeLookup(child1.Type, f1, child1.Sub()))
		spec.Desc = append(spec.Desc, fmt.Sprintf("2: %s %s", child1.Name, f1.Name))
	}
	ll = append(ll, MakeLookup(child1.Type, Flags[0], child1.Sub()))
	spec.Desc = append(spec.Desc, fmt.Sprintf("3: %s", child1.Name))
	spec.Sig = ContextForms[form] + " / " + child0.Name
	spec.Applied = []gtab.LookupIndex{0}
	if extra > 0 {
		e := menu[extra-1]
		ll = append(ll, MakeLookup(e.Type, Flags[0], e.Sub()))
		spec.Desc = append(spec.Desc, fmt.Sprintf("4: %s (applied after 0)", e.Name))
		spec.Applied = append(spec.Applied, 4)
	}
	return ll, gd, spec
}

// Sequences calls f for every glyph sequence of length 0..maxLen over the alphabet, shortest first.
func Sequences(alphabet []glyph.ID, maxLen int, f func([]glyph.ID) bool) {
	seq := make([]glyph.ID, 0, maxLen)
	for n := 0; n <= maxLen; n++ {
		idx := make([]int, n)
		for {
			seq = seq[:0]
			for _, k := range idx {
				seq = append(seq, alphabet[k])
			}
			if !f(seq) {
				return
			}
			i := n - 1
			for i >= 0 {
				idx[i]++
				if idx[i] < len(alphabet) {
					break
				}
				idx[i] = 0
				i--
			}
			if i < 0 {
				break
			}
		}
	}
}
