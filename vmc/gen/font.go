// Package gen holds the shared generators: fonts and lookup lists assembled
// from choice points of the explorer.
package gen

import (
	"fmt"
	"time"

	"golang.org/x/text/language"

	"seehuhn.de/go/geom/matrix"
	"seehuhn.de/go/postscript/cid"
	"seehuhn.de/go/postscript/funit"
	"seehuhn.de/go/postscript/type1"

	"seehuhn.de/go/sfnt"
	"seehuhn.de/go/sfnt/cff"
	"seehuhn.de/go/sfnt/cmap"
	"seehuhn.de/go/sfnt/glyf"
	"seehuhn.de/go/sfnt/glyph"
	"seehuhn.de/go/sfnt/maxp"
	"seehuhn.de/go/sfnt/opentype/classdef"
	"seehuhn.de/go/sfnt/opentype/coverage"
	"seehuhn.de/go/sfnt/opentype/gdef"
	"seehuhn.de/go/sfnt/opentype/gtab"
	"seehuhn.de/go/sfnt/os2"

	"verif/explore"
)

// Pt is a TrueType outline point.
type Pt struct {
	X, Y int16
	On   bool
}

// SimpleGlyf assembles a simple TrueType glyph (long coordinates, no flag
// repeats; the compact encodings are C11's alphabet).
func SimpleGlyf(contours [][]Pt, instr []byte) *glyf.Glyph {
	var enc []byte
	n := 0
	for _, c := range contours {
		n += len(c)
		enc = append(enc, byte((n-1)>>8), byte(n-1))
	}
	enc = append(enc, byte(len(instr)>>8), byte(len(instr)))
	enc = append(enc, instr...)
	var xs, ys []byte
	var px, py int16
	first := true
	var bb funit.Rect16
	for _, c := range contours {
		for _, p := range c {
			f := byte(0)
			if p.On {
				f |= 1
			}
			enc = append(enc, f)
			dx, dy := p.X-px, p.Y-py
			xs = append(xs, byte(uint16(dx)>>8), byte(dx))
			ys = append(ys, byte(uint16(dy)>>8), byte(dy))
			px, py = p.X, p.Y
			if first {
				bb = funit.Rect16{LLx: funit.Int16(p.X), LLy: funit.Int16(p.Y), URx: funit.Int16(p.X), URy: funit.Int16(p.Y)}
				first = false
			} else {
				bb.LLx = min(bb.LLx, funit.Int16(p.X))
				bb.LLy = min(bb.LLy, funit.Int16(p.Y))
				bb.URx = max(bb.URx, funit.Int16(p.X))
				bb.URy = max(bb.URy, funit.Int16(p.Y))
			}
		}
	}
	enc = append(enc, xs...)
	enc = append(enc, ys...)
	return &glyf.Glyph{Rect16: bb, Data: glyf.SimpleGlyph{NumContours: int16(len(contours)), Encoded: enc}}
}

// CompositeGlyf assembles a composite glyph from component ids with byte offsets.
func CompositeGlyf(bb funit.Rect16, comps ...glyph.ID) *glyf.Glyph {
	var cc []glyf.GlyphComponent
	for i, g := range comps {
		fl := glyf.FlagArgsAreXYValues
		if i+1 < len(comps) {
			fl |= glyf.FlagMoreComponents
		}
		cc = append(cc, glyf.GlyphComponent{Flags: fl, GlyphIndex: g, Data: []byte{byte(10 * i), byte(3 * i)}})
	}
	return &glyf.Glyph{Rect16: bb, Data: glyf.CompositeGlyph{Components: cc}}
}

var triangle = [][]Pt{{{0, 0, true}, {500, 0, true}, {250, 700, true}}}
var twoContours = [][]Pt{
	{{50, -200, true}, {400, -200, true}, {400, 300, false}, {50, 300, true}},
	{{100, 400, true}, {300, 400, true}, {200, 650, true}},
}
var box = [][]Pt{{{-30, 0, true}, {600, 0, true}, {600, 520, true}, {-30, 520, true}}}

// GlyfShape returns the k-th TrueType glyph of the shape menu for glyph id gid.
func GlyfShape(k int, gid int) *glyf.Glyph {
	switch k % 7 {
	case 5, 6:
		// composite with an instruction block: empty but present (legal, and what the decoder
		// returns for WE_HAVE_INSTRUCTIONS with length 0), or two bytes
		if gid >= 2 {
			g := CompositeGlyf(funit.Rect16{LLx: 0, LLy: 0, URx: 500, URy: 700}, 1)
			d := g.Data.(glyf.CompositeGlyph)
			d.Components[0].Flags |= glyf.FlagWeHaveInstructions
			d.Instructions = []byte{}
			if k%7 == 6 {
				d.Instructions = []byte{0xB0, 0x05}
			}
			g.Data = d
			return g
		}
		return SimpleGlyf(triangle, nil)
	case 0:
		return nil // empty glyph
	case 1:
		return SimpleGlyf(triangle, nil)
	case 2:
		return SimpleGlyf(twoContours, []byte{0xB0, 0x01})
	case 3:
		return SimpleGlyf(box, nil)
	case 4:
		if gid >= 2 {
			return CompositeGlyf(funit.Rect16{LLx: 0, LLy: 0, URx: 510, URy: 703}, 1, glyph.ID(gid-1))
		}
		return SimpleGlyf(box, nil)
	}
	return SimpleGlyf(box, nil)
}

// CFFShape returns the k-th CFF glyph of the shape menu.
func CFFShape(k int, name string, width float64) *cff.Glyph {
	g := cff.NewGlyph(name, width)
	switch k % 5 {
	case 0: // blank
	case 1:
		g.MoveTo(0, 0)
		g.LineTo(500, 0)
		g.LineTo(250, 700)
	case 2:
		g.MoveTo(50, -200)
		g.LineTo(400, -200)
		g.CurveTo(450, 0, 450, 200, 400, 300)
		g.LineTo(50, 300)
		g.MoveTo(100, 400)
		g.LineTo(300, 400)
		g.LineTo(200, 650.5)
	case 3:
		g.HStem = []float64{0, 520}
		g.VStem = []float64{-30, 600}
		g.MoveTo(-30, 0)
		g.LineTo(600, 0)
		g.LineTo(600, 520)
		g.LineTo(-30, 520)
	default:
		g.MoveTo(10.25, 20)
		g.CurveTo(10.25, 120, 110, 220.75, 210, 220.75)
		g.CurveTo(310, 220.75, 410, 120, 410, 20)
		g.LineTo(10.25, 20)
	}
	return g
}

// FontKind selects the outline flavour.
const (
	KindGlyf = iota
	KindCFF
	KindCID
)

// KindNames names the outline kinds.
var KindNames = []string{"glyf", "cff", "cid"}

// FontSpec records the structural choices made (for samples and oracles).
type FontSpec struct {
	Kind   string
	Glyphs int
	Shapes int
	CMap   string
	Gsub   string
	Gpos   string
	Gdef   string
	Devs   []string
	Runes  map[rune]glyph.ID
}

// FontOpts restricts the generator.
type FontOpts struct {
	NoLayout    bool // no GSUB/GPOS/GDEF menus
	Compact     bool // five layout combinations instead of the full GSUB x GPOS x GDEF product
	NoMeta      bool // no metadata deviations
	SubsetOnly  bool // only layout data the subsetter supports
	Kinds       []int
	GlyphCounts []int
}

var baseTime = time.Date(2021, 3, 4, 5, 6, 7, 0, time.UTC)

// Font assembles a font from choice points.
func Font(c *explore.Ctx, o FontOpts) (*sfnt.Font, *FontSpec) {
	spec := &FontSpec{}
	kinds := o.Kinds
	if kinds == nil {
		kinds = []int{KindGlyf, KindCFF, KindCID}
	}
	kind := kinds[c.Choose(len(kinds), "outline kind")]
	spec.Kind = KindNames[kind]
	counts := o.GlyphCounts
	if counts == nil {
		counts = []int{1, 3, 6}
	}
	n := counts[c.Choose(len(counts), "glyph count")]
	spec.Glyphs = n
	shapeSeed := c.Choose(3, "shape rotation")
	spec.Shapes = shapeSeed
	widthMenu := []int{0, 500, 500, 601, 1000, 250}

	f := &sfnt.Font{
		FamilyName:         "Verif Test",
		Width:              os2.WidthNormal,
		Weight:             os2.WeightNormal,
		IsRegular:          true,
		UnitsPerEm:         1000,
		FontMatrix:         matrix.Matrix{0.001, 0, 0, 0.001, 0, 0},
		Ascent:             800,
		Descent:            -200,
		LineGap:            90,
		CapHeight:          700,
		XHeight:            480,
		UnderlinePosition:  -100,
		UnderlineThickness: 50,
		CreationTime:       baseTime,
		ModificationTime:   baseTime.Add(48 * time.Hour),
		Version:            0x00010000,
	}

	names := []string{".notdef", "A", "B", "f", "i", "fi", "x", "H"}
	shapeOf := func(i int) int {
		if i == 0 {
			return 3 // .notdef is a box
		}
		return i + shapeSeed
	}
	switch kind {
	case KindGlyf:
		ol := &glyf.Outlines{Maxp: &maxp.TTFInfo{MaxPoints: 7, MaxContours: 2, MaxZones: 2, MaxComponentElements: 2, MaxComponentDepth: 1}}
		for i := 0; i < n; i++ {
			ol.Glyphs = append(ol.Glyphs, GlyfShape(shapeOf(i), i))
			ol.Widths = append(ol.Widths, funit.Int16(widthMenu[(i+shapeSeed)%len(widthMenu)]))
		}
		switch c.Choose(3, "glyf names") {
		case 1:
			ol.Names = append([]string(nil), names[:n]...)
			if n > 1 {
				ol.Names[n-1] = "custom.name"
			}
		case 2:
			ol.Tables = map[string][]byte{"cvt ": {0, 1, 0, 2}, "prep": {0xB0, 0x00}}
		}
		f.Outlines = ol
	case KindCFF, KindCID:
		ol := &cff.Outlines{}
		for i := 0; i < n; i++ {
			nm := ""
			if kind == KindCFF {
				nm = names[i]
			}
			ol.Glyphs = append(ol.Glyphs, CFFShape(shapeOf(i), nm, float64(widthMenu[(i+shapeSeed)%len(widthMenu)])))
		}
		priv := func(k int) *type1.PrivateDict {
			return &type1.PrivateDict{
				BlueValues: []funit.Int16{-10, 0, funit.Int16(700 + k), funit.Int16(710 + k)},
				BlueScale:  0.039625, BlueShift: 7, BlueFuzz: 1,
				StdHW: float64(50 + k), StdVW: 80,
			}
		}
		if kind == KindCFF {
			ol.Private = []*type1.PrivateDict{priv(0)}
			ol.FDSelect = func(glyph.ID) int { return 0 }
			if c.Bool("cff custom encoding") && n > 1 {
				enc := make([]glyph.ID, 256)
				enc[65] = 1
				if n > 2 {
					enc[66] = 2
					enc[200] = 2 // multiply encoded
				}
				ol.Encoding = enc
			} else {
				ol.Encoding = cff.StandardEncoding(ol.Glyphs)
			}
		} else {
			nfd := 1 + c.Choose(2, "fd count")
			for k := 0; k < nfd; k++ {
				ol.Private = append(ol.Private, priv(k))
				ol.FontMatrices = append(ol.FontMatrices, matrix.Identity)
			}
			ol.FDSelect = func(g glyph.ID) int { return int(g) % nfd }
			ol.ROS = &cid.SystemInfo{Registry: "Adobe", Ordering: "Identity", Supplement: 0}
			ol.GIDToCID = make([]cid.CID, n)
			gap := c.Choose(2, "cid gaps")
			for i := range ol.GIDToCID {
				ol.GIDToCID[i] = cid.CID(i * (1 + gap))
			}
		}
		f.Outlines = ol
	}

	// character map
	runes := map[rune]glyph.ID{}
	letters := []rune{0, 'A', 'B', 'f', 'i', 0xFB01, 'x', 'H'}
	for i := 1; i < n && i < len(letters); i++ {
		runes[letters[i]] = glyph.ID(i)
	}
	cm := c.Choose(4, "cmap")
	switch cm {
	case 0:
		spec.CMap = "none"
		runes = map[rune]glyph.ID{}
	case 1:
		spec.CMap = "format4"
		t := cmap.Format4{}
		for r, g := range runes {
			t[uint16(r)] = g
		}
		if len(t) > 0 {
			f.InstallCMap(t)
		} else {
			spec.CMap = "none"
		}
	case 2:
		spec.CMap = "format12+astral"
		t := cmap.Format12{}
		for r, g := range runes {
			t[uint32(r)] = g
		}
		if n > 1 {
			t[0x1F600] = 1
			runes[0x1F600] = 1
		}
		if len(t) > 0 {
			f.InstallCMap(t)
		} else {
			spec.CMap = "none"
		}
	case 3:
		spec.CMap = "format4+format12 distinct"
		t4 := cmap.Format4{}
		t12 := cmap.Format12{}
		for r, g := range runes {
			t4[uint16(r)] = g
			t12[uint32(r)] = g
		}
		if len(t4) > 0 {
			f.CMapTable = cmap.Table{
				{PlatformID: 3, EncodingID: 1}:              t4.Encode(0),
				{PlatformID: 3, EncodingID: 10}:             t12.Encode(0),
				{PlatformID: 1, EncodingID: 0, Language: 0}: t4.Encode(0),
			}
		} else {
			spec.CMap = "none"
		}
	}
	spec.Runes = runes

	if !o.NoLayout && n >= 3 {
		var gs, gp, gd int
		if o.Compact && !o.SubsetOnly {
			combos := [][3]int{{0, 0, 0}, {1, 0, 1}, {2, 1, 0}, {0, 3, 2}, {3, 2, 0}, {4, 0, 1}, {5, 4, 3}}
			k := combos[c.Choose(len(combos), "layout combination")]
			gs, gp, gd = k[0], k[1], k[2]
		} else {
			gs = c.Choose(6, "gsub")
			if o.SubsetOnly {
				gp = c.Choose(2, "gpos")
			} else {
				gp = c.Choose(5, "gpos")
				gd = c.Choose(4, "gdef")
			}
		}
		switch gs {
		case 1:
			spec.Gsub = "single 1.1"
			f.Gsub = simpleInfo("ss01", 1, &gtab.Gsub1_1{Cov: coverage.Set{1: true}, Delta: 1})
		case 2:
			spec.Gsub = "ligature 4.1"
			f.Gsub = simpleInfo("liga", 4, &gtab.Gsub4_1{Cov: coverage.Table{1: 0}, Repl: [][]gtab.Ligature{{{In: []glyph.ID{2}, Out: glyph.ID(n - 1)}}}})
		case 3:
			spec.Gsub = "empty"
			f.Gsub = &gtab.Info{}
		case 4:
			// f + i -> fi, ignoring marks (glyph 2 = 'B' is a mark in the GDEF variants)
			if n >= 6 {
				spec.Gsub = "ligature 4.1 -marks (f i -> fi)"
				f.Gsub = simpleInfo("liga", 4, &gtab.Gsub4_1{Cov: coverage.Table{3: 0}, Repl: [][]gtab.Ligature{{{In: []glyph.ID{4}, Out: 5}}}})
				f.Gsub.LookupList[0].Meta.LookupFlags = gtab.IgnoreMarks
			}
		}
		if gs == 5 {
			// .notdef is a glyph like any other: coverage tables, class tables and pairs may start at glyph 0
			spec.Gsub = "single 1.1 from glyph 0"
			f.Gsub = simpleInfo("ss01", 1, &gtab.Gsub1_1{Cov: coverage.Set{0: true, 1: true}, Delta: 1})
		}
		switch gp {
		case 4:
			spec.Gpos = "pair 2.1 with glyph 0"
			f.Gpos = simpleInfo("kern", 2, gtab.Gpos2_1{
				{Left: 0, Right: 1}: {First: &gtab.GposValueRecord{XAdvance: -13}},
				{Left: 2, Right: 0}: {First: &gtab.GposValueRecord{XAdvance: 17}},
				{Left: 1, Right: 2}: {First: &gtab.GposValueRecord{XAdvance: -40}},
			})
		case 1:
			spec.Gpos = "pair 2.1"
			f.Gpos = simpleInfo("kern", 2, gtab.Gpos2_1{
				{Left: 1, Right: 2}: {First: &gtab.GposValueRecord{XAdvance: -40}},
				{Left: 2, Right: 1}: {First: &gtab.GposValueRecord{XAdvance: 25}},
			})
		case 2:
			spec.Gpos = "single 1.1"
			f.Gpos = simpleInfo("cpsp", 1, &gtab.Gpos1_1{Cov: coverage.Table{1: 0, 2: 1}, Adjust: &gtab.GposValueRecord{XPlacement: 5, XAdvance: 10}})
		case 3:
			spec.Gpos = "pair 2.2"
			f.Gpos = simpleInfo("kern", 2, &gtab.Gpos2_2{
				Cov:    coverage.Set{1: true, 2: true},
				Class1: classdef.Table{1: 1},
				Class2: classdef.Table{2: 1},
				Adjust: [][]*gtab.PairAdjust{
					{{First: &gtab.GposValueRecord{}}, {First: &gtab.GposValueRecord{XAdvance: -11}}},
					{{First: &gtab.GposValueRecord{XAdvance: 7}}, {First: &gtab.GposValueRecord{XAdvance: -30}}},
				},
			})
		}
		switch gd {
		case 3:
			spec.Gdef = "classes+attach+marksets from glyph 0"
			f.Gdef = &gdef.Table{
				GlyphClass:      classdef.Table{0: gdef.GlyphClassBase, 1: gdef.GlyphClassBase, 2: gdef.GlyphClassMark},
				MarkAttachClass: classdef.Table{2: 1},
				MarkGlyphSets:   []coverage.Set{{0: true, 1: true, 2: true}, {2: true}},
			}
		case 1:
			spec.Gdef = "classes"
			f.Gdef = &gdef.Table{GlyphClass: classdef.Table{1: gdef.GlyphClassBase, 2: gdef.GlyphClassMark}}
		case 2:
			spec.Gdef = "classes+attach+marksets"
			f.Gdef = &gdef.Table{
				GlyphClass:      classdef.Table{1: gdef.GlyphClassBase, 2: gdef.GlyphClassMark},
				MarkAttachClass: classdef.Table{2: 1},
				MarkGlyphSets:   []coverage.Set{{2: true}},
			}
		}
	}

	if !o.NoMeta {
		metaDeviations(c, f, spec, kind)
	}
	return f, spec
}

func simpleInfo(feature string, typ uint16, st gtab.Subtable) *gtab.Info {
	return &gtab.Info{
		ScriptList: map[language.Tag]*gtab.Features{
			language.MustParse("und-Zzzz-x-dflt"): {Required: 0xFFFF, Optional: []gtab.FeatureIndex{0}},
		},
		FeatureList: []*gtab.Feature{{Tag: feature, Lookups: []gtab.LookupIndex{0}}},
		LookupList: []*gtab.LookupTable{
			{Meta: &gtab.LookupMetaInfo{LookupType: typ}, Subtables: []gtab.Subtable{st}},
		},
	}
}

func dev[T any](c *explore.Ctx, spec *FontSpec, label string, dst *T, alts ...T) {
	k := c.Deviate(len(alts)+1, label)
	if k > 0 {
		*dst = alts[k-1]
		spec.Devs = append(spec.Devs, fmt.Sprintf("%s=%v", label, alts[k-1]))
	}
}

// metaDeviations: every scalar/string metadata field is a deviation point
// whose alternatives are boundary values of its range.
func metaDeviations(c *explore.Ctx, f *sfnt.Font, spec *FontSpec, kind int) {
	dev(c, spec, "FamilyName", &f.FamilyName, "X", "Nåme Ünï", "Fam€ 字", "A𝔘B", "Bold Face")
	dev(c, spec, "Width", &f.Width, os2.WidthUltraCondensed, os2.WidthUltraExpanded, os2.WidthSemiCondensed)
	dev(c, spec, "Weight", &f.Weight, os2.Weight(1), os2.WeightBold, os2.Weight(1000), os2.WeightLight, os2.Weight(650))
	// style flags: the representable combinations (fixed points of the read rules)
	type style struct {
		reg, bold, ital, obl bool
		angle                float64
	}
	st := style{reg: true}
	dev(c, spec, "style", &st,
		style{}, style{bold: true}, style{ital: true, angle: -12}, style{bold: true, ital: true, angle: -9.5},
		style{ital: true, obl: true, angle: -7}, style{ital: true, angle: 12.25})
	f.IsRegular, f.IsBold, f.IsItalic, f.IsOblique, f.ItalicAngle = st.reg, st.bold, st.ital, st.obl, st.angle
	type class struct{ serif, script bool }
	cl := class{}
	dev(c, spec, "class", &cl, class{serif: true}, class{script: true})
	f.IsSerif, f.IsScript = cl.serif, cl.script
	dev(c, spec, "CodePageRange", &f.CodePageRange, os2.CodePageRange(1), os2.CodePageRange(1)<<63, os2.CodePageRange(1)<<31|1<<32, ^os2.CodePageRange(0))
	dev(c, spec, "Version", &f.Version, 0, 0x00018000, 0x00020000+0x4189 /* 2.256 */, 0x7FFF0000)
	dev(c, spec, "CreationTime", &f.CreationTime, time.Time{}, time.Date(1904, 1, 1, 0, 0, 1, 0, time.UTC), time.Date(1970, 1, 1, 0, 0, 0, 0, time.UTC), time.Date(2040, 2, 29, 23, 59, 59, 0, time.UTC))
	if f.CreationTime.IsZero() {
		dev(c, spec, "ModificationTime", &f.ModificationTime, time.Date(1999, 12, 31, 23, 59, 59, 0, time.UTC), time.Date(2106, 2, 7, 6, 28, 16, 0, time.UTC))
	} else {
		// a font that only records when it was created (at least one of the two is always set)
		dev(c, spec, "ModificationTime", &f.ModificationTime, time.Date(1999, 12, 31, 23, 59, 59, 0, time.UTC), time.Date(2106, 2, 7, 6, 28, 16, 0, time.UTC), time.Time{})
	}
	dev(c, spec, "Description", &f.Description, "descr", "Ünï €", "x𝔘")
	dev(c, spec, "SampleText", &f.SampleText, "The quick brown fox", "ÄÖÜ")
	dev(c, spec, "Copyright", &f.Copyright, "(c) 2021 Somebody", "© 2021 Sömebody")
	dev(c, spec, "Trademark", &f.Trademark, "TM", "™ mark")
	dev(c, spec, "License", &f.License, "OFL", "lïcense")
	dev(c, spec, "LicenseURL", &f.LicenseURL, "https://example.com/l")
	dev(c, spec, "PermUse", &f.PermUse, os2.PermEdit, os2.PermView, os2.PermRestricted)
	dev(c, spec, "Ascent", &f.Ascent, 0, 32767, -1, 1)
	dev(c, spec, "Descent", &f.Descent, 0, -32768, 1)
	dev(c, spec, "LineGap", &f.LineGap, 0, 32767, -32768)
	dev(c, spec, "CapHeight", &f.CapHeight, 1, 32767)
	dev(c, spec, "XHeight", &f.XHeight, 1, 32767)
	dev(c, spec, "UnderlinePosition", &f.UnderlinePosition, 0, -32768, 32767)
	dev(c, spec, "UnderlineThickness", &f.UnderlineThickness, 0, 1, 32767)
	if kind == KindGlyf {
		var upm uint16 = 1000
		dev(c, spec, "UnitsPerEm", &upm, 16, 2048, 16384)
		f.UnitsPerEm = upm
		q := 1 / float64(upm)
		f.FontMatrix = matrix.Matrix{q, 0, 0, q, 0, 0}
	} else {
		type um struct {
			upm uint16
			m   matrix.Matrix
		}
		u := um{1000, matrix.Matrix{0.001, 0, 0, 0.001, 0, 0}}
		dev(c, spec, "UnitsPerEm/FontMatrix", &u,
			um{2048, matrix.Matrix{1.0 / 2048, 0, 0, 1.0 / 2048, 0, 0}},
			um{1000, matrix.Matrix{0.001, 0, 0.000176, 0.001, 0, 0}},
			um{1005, matrix.Matrix{1.0 / 1005, 0, 0, 1.0 / 1005, 0, 0}}) // close to the default matrix, not equal to it
		f.UnitsPerEm, f.FontMatrix = u.upm, u.m
	}
}
