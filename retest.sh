#!/bin/bash
# retest.sh ID-N ... : rerun already confirmed seeds in the lab, append results to RESULTS-round<k>.txt with tag retest
cd /verif
for x in "$@"; do
  id=${x%-*}; n=${x#*-}
  out=$(./mutlab.sh seeded/$x/patch.diff $id --tier quick 2>&1)
  rc=$(echo "$out" | grep -o 'exit=.*' | cut -d= -f2)
  cl=$(echo "$out" | grep -oE "harness=[^ ]+ clause=[^ ]+" | head -4 | tr '\n' ';')
  echo "$x rc=$rc $cl (retest $(git rev-parse --short HEAD))" | tee -a seeded/RESULTS-round$(( (n+1)/2 )).txt
done
