#!/usr/bin/env python3
"""Regenerates the tables of DESIGN.md 10.2 (parts and executions of the quick tier, from the logs of a full run in
the directory given as argument) and 10.5 (seeded changes, from seeded/*/meta.json and seeded/RESULTS-*.txt)."""
import re, sys, glob, subprocess, os
logdir = sys.argv[1]
rows = ["| id | wall | parts of the quick tier (executions) |", "|---|---|---|"]
for f in sorted(glob.glob(logdir + '/C??.log')):
    pid = os.path.basename(f)[:3]
    parts, wall = {}, ''
    order = []
    for l in open(f, errors='replace'):
        m = re.match(r'part (\S+?):.*?executions=(\d+)', l)
        if m:
            name = m.group(1)
            if name.startswith('C17.bfs/'):
                name = 'C17.bfs (44 searches)'
            if name not in parts:
                order.append(name)
            parts[name] = parts.get(name, 0) + int(m.group(2))
        m = re.match(r'OK property=\S+ tier=\S+ wall=([\d.]+)s', l)
        if m:
            wall = m.group(1) + ' s'
    def fmt(n):
        return '%.1fM' % (n / 1e6) if n >= 1e6 else ('%dk' % round(n / 1e3) if n >= 1e4 else str(n))
    rows.append('| %s | %s | %s |' % (pid, wall, ', '.join('%s (%s)' % (n.split('.', 1)[1] if '.' in n else n, fmt(parts[n])) for n in order)))
t102 = '\n'.join(rows)
t105 = subprocess.run(['python3', '/verif/gen_seeded_table.py'] + sorted(glob.glob('/verif/seeded/RESULTS-round*.txt')), capture_output=True, text=True)
s = open('/verif/DESIGN.md').read()
def put(s, tag, body):
    a, b = '<!-- %s:begin -->' % tag, '<!-- %s:end -->' % tag
    i, j = s.index(a), s.index(b)
    return s[:i + len(a)] + '\n' + body + '\n' + s[j:]
s = put(s, 'table-10.2', t102)
s = put(s, 'table-10.5', t105.stdout.strip())
open('/verif/DESIGN.md', 'w').write(s)
print(t105.stderr.strip())
