#!/bin/bash
# usage: seedrun.sh <ID> <N> [tier]   — confirm a sub-agent's change (confirm_seed.sh), then run the property's check on it in the
# isolated lab (mutlab.sh) and append a result line to /verif/seeded/RESULTS-round$(( (n+1)/2 )).txt
id="$1"; n="$2"; tier="${3:-quick}"
cd /verif
./confirm_seed.sh $id $n > /tmp/seed/confirm.$id.$n.txt 2>&1
tail -2 /tmp/seed/confirm.$id.$n.txt
[ -d seeded/$id-$n ] || { echo "$id-$n NOT-CONFIRMED" >> seeded/RESULTS-round$(( (n+1)/2 )).txt; exit 1; }
out=$(./mutlab.sh seeded/$id-$n/patch.diff $id --tier $tier 2>&1)
echo "$out"
rc=$(echo "$out" | grep -o 'exit=.*' | cut -d= -f2)
cl=$(echo "$out" | grep -oE "harness=[^ ]+ clause=[^ ]+" | head -4 | tr '\n' ';')
echo "$id-$n rc=$rc $cl" >> seeded/RESULTS-round$(( (n+1)/2 )).txt
